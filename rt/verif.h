// Kernel-side API: scenarios are written in C++ against the real pika sources and use only these
// primitives for nondeterminism, assumptions, oracles and (in concurrent scenarios) blocking.
#pragma once
#include <stdint.h>
extern "C" {
void verif_assert(int cond, const char* msg) noexcept;     // oracle (proof obligation)
void verif_assume(int cond) noexcept;                      // precondition / bound
uint32_t verif_nondet_u32(void) noexcept;                  // arbitrary value
uint64_t verif_nondet_u64(void) noexcept;
uint32_t verif_nondet_range(uint32_t lo, uint32_t hi) noexcept;    // arbitrary in [lo,hi]
int verif_tid(void) noexcept;                              // current thread slot
void verif_cover(int id) noexcept;                         // cover point (vacuity witnesses)
void verif_observe(uint64_t v) noexcept;                   // translator validation: value joins the event hash
int verif_param(int i) noexcept;                           // compile-time parameter VERIF_P<i> of the query
// visible operations (context-switch points) for environment stubs
void verif_block_until(uint32_t* flag) noexcept;           // disabled while *flag == 0
void verif_spin(void) noexcept;                            // one iteration of a polling loop
void verif_spin_timed(void) noexcept;                      // polling loop that ends by itself (deadline)
void verif_yield(void) noexcept;                           // plain pre-emption point
}
