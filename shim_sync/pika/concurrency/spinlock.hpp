// Contract-level spinlock for the kernels in which pika::concurrency::detail::spinlock is only the
// *internal* lock of another primitive (assume-guarantee layering, DESIGN 4.1): the real spinlock.hpp is
// verified on its own in kernels/C06_spinlock.cpp (mutual exclusion, no lost unlock); here an acquisition
// is one visible operation that is disabled while the lock is held, and a release is a plain store
// (a release is a left mover: pre-empting just before it shows other threads nothing new).
#pragma once
#include <pika/config.hpp>
#include "verif.h"
#include <cstdint>

namespace pika::concurrency::detail {
    struct spinlock
    {
        PIKA_NON_COPYABLE(spinlock);
        std::uint32_t free_ = 1;
        int owner_slot_ = -1;    // ghost
        spinlock(char const* const = "pika::concurrency::detail::spinlock") {}
        ~spinlock() {}
        void lock()
        {
            verif_block_until(&free_);
            free_ = 0;
            owner_slot_ = verif_tid();
        }
        bool try_lock()
        {
            verif_yield();
            if (!free_) return false;
            free_ = 0;
            owner_slot_ = verif_tid();
            return true;
        }
        void unlock()
        {
            verif_assert(!free_, "spinlock contract: unlock of a lock that is not held");
            owner_slot_ = -1;
            free_ = 1;
        }
    };
}    // namespace pika::concurrency::detail
