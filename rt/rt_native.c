/* Native replay runtime: the kernel's LLVM IR (the real pika code as compiled by clang), with a
   call inserted before/after every visible operation by `ll2c -mode instr`, is linked against this
   file.  Threads are ucontext coroutines driven by exactly the scheduler of rt_gen.c, fed by the
   budgets and nondeterministic values of a CBMC counterexample (--replay) or by a seed (--seed,
   used for translator validation: the RESULT line must equal that of the gcc build of the
   generated C). */
#define _GNU_SOURCE
#include <stdint.h>
#include <ucontext.h>
#include "rt_concrete.h"

#ifndef VERIF_NT
#error "VERIF_NT must be defined"
#endif
#define VERIF_NSLOT (VERIF_NT + 1)
#ifndef VERIF_R
#define VERIF_R 3
#endif
#ifndef VERIF_BMAX
#define VERIF_BMAX 200
#endif

typedef uint32_t u32;
typedef uint64_t u64;
typedef uint8_t u8;

static int verif_cur = VERIF_NT;
static unsigned verif_budget = 0x7fffffff; /* global constructors run before main */
static int verif_changed;
static int verif_last[VERIF_NSLOT];
static u32* verif_blocked_on[VERIF_NSLOT];
static int verif_done[VERIF_NSLOT];
static int verif_cover_hit[16];
static u64 verif_nd_cnt;

extern void (*verif_native_threads[])(void);
extern void (*verif_native_init)(void);
extern void (*verif_native_final)(void);
extern void (*verif_native_main)(void);
extern void (*verif_native_stuck)(void);

static ucontext_t sched_ctx, thr_ctx[VERIF_NSLOT];
static int in_thread;

static void yield_to_sched(void)
{
    if (!in_thread) verif_concrete_finish("FAIL", "init/final/main blocked or was pre-empted");
    swapcontext(&thr_ctx[verif_cur], &sched_ctx);
}

static u8 snap[64];
void verif_native_pre(void* p, u64 wsize)
{
    while (verif_budget == 0)
    {
        verif_last[verif_cur] = 0;
        yield_to_sched();
    }
    verif_budget--;
    if (wsize && wsize <= sizeof snap) memcpy(snap, p, wsize);
}
void verif_native_post(void* p, u64 wsize)
{
    if (wsize && wsize <= sizeof snap && memcmp(snap, p, wsize)) verif_changed = 1;
}
void verif_yield(void) { verif_native_pre(0, 0); }
void verif_block_until(u32* flag)
{
    if (VERIF_NT == 0)
    {
        verif_assert_concrete(*flag != 0, "stuck: blocks forever (sequential scenario)");
        return;
    }
    for (;;)
    {
        if (!*flag)
        {
            verif_blocked_on[verif_cur] = flag;
            verif_last[verif_cur] = 1;
            verif_budget = 0;
            yield_to_sched();
            continue;
        }
        if (verif_budget == 0)
        {
            verif_last[verif_cur] = 0;
            yield_to_sched();
            continue;
        }
        verif_budget--;
        verif_changed = 1;
        return;
    }
}
static void spin_common(int timed)
{
    if (VERIF_NT == 0) return;
    verif_budget = 0;
    verif_last[verif_cur] = timed ? 3 : 2;
    while (verif_budget == 0) yield_to_sched();
    verif_budget--;
}
void verif_spin(void) { spin_common(0); }
void verif_spin_timed(void) { spin_common(1); }

void verif_assert(int c, const char* msg) { verif_assert_concrete(c != 0, msg); }
void verif_assume(int c) { verif_assume_concrete(c != 0); }
static u64 draw(void)
{
    u64 v = verif_src_next();
    verif_nd_cnt++;
    verif_changed = 1;
    return v;
}
u32 verif_nondet_u32(void)
{
    u32 v = (u32) draw();
    verif_event('n', v);
    return v;
}
u64 verif_nondet_u64(void)
{
    u64 v = draw();
    verif_event('n', v);
    return v;
}
u32 verif_nondet_range(u32 lo, u32 hi)
{
    u64 raw = draw();
    u32 v = (raw >= lo && raw <= hi) ? (u32) raw : lo + (u32) (raw % ((u64) hi - lo + 1));
    verif_event('n', v);
    return v;
}
int verif_tid(void) { return verif_cur; }
void verif_cover(int id)
{
    if (id >= 0 && id < 16) verif_cover_hit[id] = 1;
}
void verif_observe(u64 v) { verif_event('o', v); }
int verif_param(int i)
{
#ifdef VERIF_P0
    if (i == 0) return VERIF_P0;
#endif
#ifdef VERIF_P1
    if (i == 1) return VERIF_P1;
#endif
#ifdef VERIF_P2
    if (i == 2) return VERIF_P2;
#endif
#ifdef VERIF_P3
    if (i == 3) return VERIF_P3;
#endif
    return 0;
}

static void tramp(int t)
{
    verif_native_threads[t]();
    verif_done[t] = 1;
    in_thread = 0;
    setcontext(&sched_ctx);
}

int main(int argc, char** argv)
{
    verif_concrete_setup(argc, argv);
    verif_cur = VERIF_NT;
    verif_budget = 0x7fffffff;
    if (VERIF_NT == 0)
    {
        if (verif_native_main) verif_native_main();
        verif_concrete_finish("PASS", "");
    }
    if (verif_native_init) verif_native_init();
    for (int t = 0; t < VERIF_NT; t++)
    {
        getcontext(&thr_ctx[t]);
        thr_ctx[t].uc_stack.ss_size = 1 << 20;
        thr_ctx[t].uc_stack.ss_sp = malloc(1 << 20);
        thr_ctx[t].uc_link = 0;
        makecontext(&thr_ctx[t], (void (*)(void)) tramp, 1, t);
    }
    int exhausted = 0;
    for (int r = 0; r < VERIF_R; r++)
    {
        verif_changed = 0;
        exhausted = 0;
        for (volatile int t = 0; t < VERIF_NT; t++)
        {
            verif_cur = t;
            if (!verif_done[t])
            {
                unsigned b = (r == VERIF_R - 1) ? VERIF_BMAX : verif_src_budget(r, t);
                verif_budget = b;
                in_thread = 1;
                swapcontext(&sched_ctx, &thr_ctx[t]);
                in_thread = 0;
                if (verif_done[t]) verif_changed = 1;
                else if (verif_last[t] == 0)
                    exhausted = 1;
            }
        }
    }
    int alld = 1, stuck = 1;
    for (int t = 0; t < VERIF_NT; t++)
    {
        if (verif_done[t]) continue;
        alld = 0;
        if (verif_last[t] == 1 && *verif_blocked_on[t] == 0) continue;
        if (verif_last[t] == 2) continue;
        stuck = 0;
    }
    if (verif_changed || exhausted) stuck = 0;
    if (!alld && stuck && verif_native_stuck)
    {
        verif_cur = VERIF_NT;
        verif_budget = 0x7fffffff;
        verif_native_stuck();
        stuck = 0;
    }
    verif_assert_concrete(alld || !stuck, "stuck: unfinished threads are blocked/spinning and a full round changed nothing (deadlock or lost wake-up)");
    if (!alld) verif_concrete_finish("OUT-OF-ROUNDS", "");
    verif_cur = VERIF_NT;
    verif_budget = 0x7fffffff;
    if (verif_native_final) verif_native_final();
    verif_concrete_finish("PASS", "");
    return 0;
}
