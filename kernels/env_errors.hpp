// Errors back end shared by all kernels: real error_code.cpp; throwing is stubbed (no message formatting):
// the error code is recorded and, in `throws` mode, verif_pika_error is thrown.
#pragma once
#include "env_pre.hpp"
#include </repo/libs/pika/errors/src/error_code.cpp>
#include "env.hpp"

// key function of pika::exception (its real definition lives in exception.cpp, not part of any kernel):
// defining it here emits the vtable/typeinfo that catch (pika::exception const&) clauses reference
namespace pika {
    exception::~exception() noexcept {}
}

struct verif_pika_error
{
    int code;
};
static int verif_last_error[8];    // last pika::error raised on this slot (0 = none)

// ---- errors back end -----------------------------------------------------------------------------------
namespace pika {
    error_code throws;
}
namespace pika::detail {
    [[noreturn]] void throw_exception(
        error errcode, std::string const&, std::string const&, std::string const&, long)
    {
        verif_last_error[verif_tid()] = static_cast<int>(errcode);
        throw verif_pika_error{static_cast<int>(errcode)};
    }
    void throws_if(pika::error_code& ec, error errcode, std::string const& msg, std::string const& func,
        std::string const& file, long line)
    {
        verif_last_error[verif_tid()] = static_cast<int>(errcode);
        if (&ec == &pika::throws) throw verif_pika_error{static_cast<int>(errcode)};
        ec = error_code(errcode, throwmode::lightweight);
    }
}
namespace verif_detail {
    [[noreturn]] void throw_exception(pika::error errcode)
    {
        verif_last_error[verif_tid()] = static_cast<int>(errcode);
        throw verif_pika_error{static_cast<int>(errcode)};
    }
    void throws_if(pika::error_code& ec, pika::error errcode)
    {
        verif_last_error[verif_tid()] = static_cast<int>(errcode);
        if (&ec == &pika::throws) throw verif_pika_error{static_cast<int>(errcode)};
        ec = pika::error_code(errcode, pika::throwmode::lightweight);
    }
}
namespace pika::detail {
    std::exception_ptr get_exception(error, std::string const&, throwmode, std::string const&,
        std::string const&, long, std::string const&)
    {
        return std::exception_ptr();
    }
}    // namespace pika::detail
