// C06 — the real pika::concurrency::detail::spinlock (spinlock.hpp, no contract shim): mutual exclusion,
// visibility, and no lost unlock.  This kernel discharges the contract that the other synchronisation
// kernels assume for the internal spinlock (shim_sync/pika/concurrency/spinlock.hpp).
#include "env_pre.hpp"
#include <pika/concurrency/spinlock.hpp>
#include <pika/thread_support/spinlock.hpp>
#include "env_sync.hpp"

#ifdef LOWLEVEL
// the real low-level pika::detail::spinlock (thread_support); its back-off is one polling step
namespace pika::detail {
    void spinlock::yield_k(unsigned) noexcept { verif_spin(); }
}
static pika::detail::spinlock sl;
#else
static pika::concurrency::detail::spinlock sl;
#endif
static int in_cs, counter, sections;

static void worker()
{
    for (int i = 0; i < NSEC; ++i)
    {
        bool got = true;
        if (verif_nondet_range(0, 1)) sl.lock();
        else
            got = sl.try_lock();
        if (!got) continue;
        verif_assert(in_cs == 0, "spinlock: at most one owner");
        ++in_cs;
        int c = counter;
        verif_yield();
        counter = c + 1;
        --in_cs;
        ++sections;
        sl.unlock();
    }
}
extern "C" void spl_init() {}
extern "C" void spl_thread_0() { worker(); }
extern "C" void spl_thread_1() { worker(); }
#if NTHREADS > 2
extern "C" void spl_thread_2() { worker(); }
#endif
extern "C" void spl_final()
{
    verif_assert(counter == sections, "updates made under the spinlock are not lost");
    verif_assert(sl.try_lock(), "the spinlock is free at quiescence");
    verif_cover(0);
}
