// SHIM of pika/concurrency/spinlock_pool.hpp (only spinlock_for differs, see comment there)
//  Copyright (c) 2012 Hartmut Kaiser
//
//  taken from:
//  boost/detail/spinlock_pool.hpp
//
//  Copyright (c) 2008 Peter Dimov
//
//  SPDX-License-Identifier: BSL-1.0
//  Distributed under the Boost Software License, Version 1.0.
//  See accompanying file LICENSE_1_0.txt or copy at
//  http://www.boost.org/LICENSE_1_0.txt)

#pragma once

#include <pika/config.hpp>
#include <pika/concurrency/cache_line_data.hpp>
#include <pika/hashing/fibhash.hpp>
#include <pika/lock_registration/detail/register_locks.hpp>
#include <pika/thread_support/spinlock.hpp>

#include <cstddef>

namespace pika::concurrency::detail {
    template <typename Tag, std::size_t N = 1 /* verif shim: one pooled lock instead of PIKA_HAVE_SPINLOCK_POOL_NUM */>
    class spinlock_pool
    {
    private:
        static pika::concurrency::detail::cache_aligned_data<::pika::detail::spinlock> pool_[N];

    public:
        static ::pika::detail::spinlock& spinlock_for(void const* pv)
        {
            // verif shim (DESIGN 4.1): which of the N pooled spinlocks guards an address is a hash of the address
            // (environment).  All addresses share pool_[0]: coarser than the real pool, identical exclusion
            // guarantees; removes a 128-way symbolic array index and a multiplicative hash from every access.
            (void) pv;
            return pool_[0].data_;
        }
    };

    template <typename Tag, std::size_t N>
    pika::concurrency::detail::cache_aligned_data<::pika::detail::spinlock>
        spinlock_pool<Tag, N>::pool_[N];
}    // namespace pika::concurrency::detail
