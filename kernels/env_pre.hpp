// Included FIRST by every kernel, before any real pika .cpp is #included.
// Message formatting on error/assertion paths is environment, not subject (DESIGN 4.2): the two throw
// macros and the assertion macro keep their control flow and error code but build no strings
// (std::string construction through malloc/memcpy is what makes CBMC's symbolic execution explode).
#pragma once
#include <pika/assert.hpp>
#include <pika/modules/errors.hpp>
#include "verif.h"

namespace verif_detail {
    [[noreturn]] void throw_exception(pika::error errcode);
    void throws_if(pika::error_code& ec, pika::error errcode);
    inline void handle_assert() noexcept
    {
        verif_assert(0, "PIKA_ASSERT / PIKA_UNREACHABLE fired");
        verif_assume(0);
    }
}    // namespace verif_detail

#undef PIKA_THROW_EXCEPTION
#define PIKA_THROW_EXCEPTION(errcode, f, ...) ::verif_detail::throw_exception(errcode)
#undef PIKA_THROWS_IF
#define PIKA_THROWS_IF(ec, errcode, f, ...) ::verif_detail::throws_if(ec, errcode)
#undef PIKA_ASSERT_
#define PIKA_ASSERT_(expr, msg) (!!(expr) ? void() : ::verif_detail::handle_assert())
