#include <assert.h>
#include <stdint.h>
int x=1, y=2; uintptr_t p;
void A(void){ p=(uintptr_t)&y; }
void B(void){ uintptr_t q; q=p; int v=*(int*)q; assert(v==1); }
int main(){ p=(uintptr_t)&x; __CPROVER_ASYNC_1: A(); __CPROVER_ASYNC_2: B(); return 0; }
