// C09 — latch, barrier (real barrier.cpp tournament tree), event, call_once.
#include "env_pre.hpp"
#include </repo/libs/pika/synchronization/src/detail/condition_variable.cpp>
#include </repo/libs/pika/synchronization/src/barrier.cpp>
#include <pika/synchronization/barrier.hpp>
#include <pika/synchronization/event.hpp>
#include <pika/synchronization/latch.hpp>
#include <pika/synchronization/once.hpp>
#include "env_sync.hpp"

// the hash of the OS thread id (starting ticket of the barrier's tournament tree) is environment: arbitrary
namespace std {
    size_t _Hash_bytes(const void*, size_t, size_t) { return verif_nondet_u64(); }
}

// ---- latch ---------------------------------------------------------------------------------------------
static pika::latch* lt;
static int l_arrived, l_n;
extern "C" void lat_init()
{
    l_n = NPART;
    lt = new pika::latch(NPART);
}
static void latch_party()
{
    ++l_arrived;
    if (verif_nondet_range(0, 1)) lt->arrive_and_wait();
    else
    {
        lt->count_down(1);
        lt->wait();
    }
    verif_assert(l_arrived == l_n, "nobody returns from latch::wait / arrive_and_wait before the count reached zero");
    verif_assert(lt->try_wait(), "try_wait is true once the latch is released");
}
extern "C" void lat_thread_0() { latch_party(); }
extern "C" void lat_thread_1() { latch_party(); }
#if NPART > 2
extern "C" void lat_thread_2() { latch_party(); }
#endif
extern "C" void lat_final() { verif_cover(0); }

// ---- barrier: NPART participants, 2 phases, completion function -------------------------------------------
static int b_arrived[2], b_completions, b_phase_of_completion_ok = 1;
struct completion
{
    void operator()() noexcept
    {
        verif_assert(b_completions < 2 && b_arrived[b_completions] == NPART, "completion runs only after all participants of the phase arrived");
        ++b_completions;
    }
};
#ifndef NPHASE
#define NPHASE 2
#endif
static pika::barrier<completion>* bar;
extern "C" void bar_init() { bar = new pika::barrier<completion>(NPART); }
static void bar_party()
{
    for (int ph = 0; ph < NPHASE; ++ph)
    {
        ++b_arrived[ph];
        bar->arrive_and_wait();
        verif_assert(b_arrived[ph] == NPART, "nobody leaves phase k before all expected participants arrived at phase k");
        verif_assert(b_completions >= ph + 1, "the completion function ran before anyone was released");
    }
}
extern "C" void bar_thread_0() { bar_party(); }
extern "C" void bar_thread_1() { bar_party(); }
#if NPART > 2
extern "C" void bar_thread_2() { bar_party(); }
#endif
extern "C" void bar_final()
{
    verif_assert(b_completions == NPHASE, "completion function ran exactly once per phase");
    verif_cover(0);
}

// ---- barrier with arrive_and_drop: party 0 leaves after phase 0, party 1 goes on alone ------------------------------
static int d_arrived0, d_completions;
struct completion_d
{
    void operator()() noexcept
    {
        if (d_completions == 0) verif_assert(d_arrived0 == 2, "completion of phase 0 runs only after both participants arrived");
        ++d_completions;
    }
};
static pika::barrier<completion_d>* bard;
extern "C" void bard_init() { bard = new pika::barrier<completion_d>(2); }
extern "C" void bard_thread_0()
{
    ++d_arrived0;
    bard->arrive_and_drop();    // counts as an arrival of phase 0 and lowers the expected count of every later phase
}
extern "C" void bard_thread_1()
{
    ++d_arrived0;
    bard->arrive_and_wait();
    verif_assert(d_arrived0 == 2, "nobody leaves phase 0 before the dropping participant arrived");
    verif_assert(d_completions >= 1, "the completion function ran before anyone was released");
    bard->arrive_and_wait();    // phase 1 has one participant left: must complete without anyone else
    verif_assert(d_completions >= 2, "phase 1 completes with the remaining participant only");
}
extern "C" void bard_final()
{
    verif_assert(d_completions == 2, "completion function ran exactly once per phase");
    verif_cover(0);
}

// ---- event -------------------------------------------------------------------------------------------------
static pika::experimental::event ev;
static int ev_set;
extern "C" void evt_init() {}
extern "C" void evt_thread_0()
{
    ev.wait();
    verif_assert(ev_set, "event::wait returns only after set");
}
extern "C" void evt_thread_1()
{
    ev_set = 1;
    ev.set();
}
extern "C" void evt_thread_2()
{
    ev.wait();    // a late waiter is released too
    verif_assert(ev_set, "event::wait returns only after set");
}
extern "C" void evt_final() { verif_cover(0); }

// ---- call_once ---------------------------------------------------------------------------------------------
static pika::once_flag oflag;
static int once_runs, once_done;
static void once_body()
{
    ++once_runs;
    verif_yield();
    once_done = 1;
}
static void once_caller()
{
    pika::call_once(oflag, once_body);
    verif_assert(once_done, "call_once returns only after the callable finished");
    verif_assert(once_runs == 1, "the callable ran exactly once");
}
extern "C" void onc_init() {}
extern "C" void onc_thread_0() { once_caller(); }
extern "C" void onc_thread_1() { once_caller(); }
extern "C" void onc_final()
{
    verif_assert(once_runs == 1, "the callable ran exactly once");
    verif_cover(0);
}

// ---- call_once with a throwing first attempt: the thrower retries while another caller waits ---------------------------
struct once_failure
{
};
static pika::once_flag xflag;
static int x_attempts, x_inside, x_completed;
static void x_body()
{
    int my = ++x_attempts;
    verif_assert(x_inside == 0, "the callable of a call_once flag never runs on two callers at the same time");
    ++x_inside;
    verif_yield();
    --x_inside;
    if (my == 1) throw once_failure{};    // the first elected attempt fails: the flag must go back to "not called"
    ++x_completed;
}
extern "C" void oncx_init() {}
extern "C" void oncx_thread_0()
{
    for (int k = 0; k < 2; ++k)
    {
        try
        {
            pika::call_once(xflag, x_body);
            verif_assert(x_completed == 1, "call_once returns normally only after one invocation of the callable completed");
            return;
        }
        catch (once_failure const&)
        {
            verif_assert(k == 0 && x_completed == 0, "only the failing first attempt propagates its exception, to its own caller");
        }
    }
}
extern "C" void oncx_thread_1()
{
    try
    {
        pika::call_once(xflag, x_body);
        verif_assert(x_completed == 1, "call_once returns normally only after one invocation of the callable completed");
    }
    catch (once_failure const&)
    {
        verif_assert(x_completed == 0, "an exception reaches the caller that ran the failing attempt");
        // this caller ran the failing attempt itself: it retries once
        pika::call_once(xflag, x_body);
        verif_assert(x_completed == 1, "call_once returns normally only after one invocation of the callable completed");
    }
}
extern "C" void oncx_final()
{
    verif_assert(x_completed == 1, "exactly one invocation of the callable completed");
    verif_assert(x_attempts == 2, "one failed and one successful attempt");
    verif_cover(0);
}
