#include "ll2c.hpp"

void die(const std::string& msg)
{
    errs() << "ll2c: error: " << msg << "\n";
    exit(3);
}

unsigned containerBits(unsigned n)
{
    if (n <= 8) return 8;
    if (n <= 16) return 16;
    if (n <= 32) return 32;
    if (n <= 64) return 64;
    if (n <= 128) return 128;
    die("integer wider than 128 bits");
}
std::string uty(unsigned n) { return n == 1 ? "u1" : "u" + std::to_string(containerBits(n)); }
std::string sty(unsigned n) { return "s" + std::to_string(containerBits(n)); }

static std::string maskConst(unsigned n)
{
    unsigned w = containerBits(n);
    if (w == 128) return "((((u128)1) << " + std::to_string(n) + ") - 1)";
    uint64_t m = (n == 64) ? ~0ULL : ((1ULL << n) - 1);
    return std::to_string(m) + "ULL";
}
std::string maskTo(unsigned n, const std::string& e)
{
    if (n == 1) return "((u1)((" + e + ") & 1))";
    unsigned w = containerBits(n);
    if (w == n) return "((" + uty(n) + ")(" + e + "))";
    return "((" + uty(n) + ")((" + e + ") & " + maskConst(n) + "))";
}
std::string sextOf(unsigned n, const std::string& e)
{
    unsigned w = containerBits(n);
    if (n == 1) return "((s8)((" + e + ") ? -1 : 0))";
    if (w == n) return "((" + sty(n) + ")(" + e + "))";
    std::string sh = std::to_string(w - n);
    return "((" + sty(n) + ")((" + sty(n) + ")((" + uty(n) + ")(" + e + ") << " + sh + ") >> " + sh + "))";
}

std::string sanitize(StringRef s)
{
    std::string r;
    for (char c : s) r += (isalnum((unsigned char) c) || c == '_') ? c : '_';
    if (r.empty() || isdigit((unsigned char) r[0])) r = "_" + r;
    return r;
}

std::string Ctx::gname(const GlobalValue* G)
{
    auto it = gvNames.find(G);
    if (it != gvNames.end()) return it->second;
    std::string base = sanitize(G->getName());
    if (auto* F = dyn_cast<Function>(G))
        if (isExt(F) && !F->getName().startswith("verif_")) base = "verif_rt_" + base;
    if (auto* GV = dyn_cast<GlobalVariable>(G))
        if (GV->isDeclaration()) base = "verif_xg_" + base;
    std::string n = base;
    int k = 0;
    while (usedNames.count(n)) n = base + "_" + std::to_string(++k);
    usedNames.insert(n);
    gvNames[G] = n;
    return n;
}

std::string Ctx::ty(Type* T)
{
    auto it = tyNames.find(T);
    if (it != tyNames.end()) return it->second;
    std::string n;
    switch (T->getTypeID())
    {
    case Type::VoidTyID: n = "void"; break;
    case Type::IntegerTyID: n = uty(T->getIntegerBitWidth()); break;
    case Type::FloatTyID: n = "float"; break;
    case Type::DoubleTyID: n = "double"; break;
    case Type::X86_FP80TyID: n = "long double"; break;
    case Type::PointerTyID:
    {
        if (cast<PointerType>(T)->isOpaque()) die("opaque pointers not supported");
        Type* E = T->getPointerElementType();
        n = ty(E) + "*";
        break;
    }
    case Type::StructTyID:
    {
        auto* S = cast<StructType>(T);
        n = "struct S" + std::to_string(structTys.size());
        if (S->hasName())
        {
            std::string s = sanitize(S->getName());
            if (s.size() > 48) s = s.substr(0, 48);
            n += "_" + s;
        }
        tyNames[T] = n;
        structTys.push_back(S);
        if (!S->isOpaque())
            for (Type* E : S->elements()) ty(E);
        return n;
    }
    case Type::ArrayTyID:
    case Type::FixedVectorTyID:
    {
        n = "struct A" + std::to_string(arrayTys.size());
        tyNames[T] = n;
        arrayTys.push_back(T);
        ty(T->isArrayTy() ? T->getArrayElementType() : cast<FixedVectorType>(T)->getElementType());
        return n;
    }
    case Type::FunctionTyID:
    {
        auto* FT = cast<FunctionType>(T);
        n = "FT" + std::to_string(fnTys.size());
        tyNames[T] = n;
        fnTys.push_back(FT);
        ty(FT->getReturnType());
        for (Type* P : FT->params()) ty(P);
        return n;
    }
    default:
    {
        std::string s;
        raw_string_ostream o(s);
        T->print(o);
        die("unsupported type " + o.str());
    }
    }
    tyNames[T] = n;
    return n;
}

static bool isAgg(Type* T) { return T->isStructTy() || T->isArrayTy() || T->isVectorTy(); }

// Emit all type declarations: forward decls, function typedefs (dependency order), struct defs
// (by-value containment order), static asserts on layout.
void Ctx::emitTypeDecls(raw_ostream& os)
{
    // closure: ty() registers recursively, vectors may grow while iterating -> index loops
    for (size_t i = 0; i < structTys.size(); ++i) os << tyNames[structTys[i]] << ";\n";
    for (size_t i = 0; i < arrayTys.size(); ++i) os << tyNames[arrayTys[i]] << ";\n";
    // function typedefs: order so that FT referenced via pointer params come first
    std::set<FunctionType*> doneFT;
    std::function<void(FunctionType*)> emitFT = [&](FunctionType* FT) {
        if (doneFT.count(FT)) return;
        doneFT.insert(FT);
        std::function<void(Type*)> dep = [&](Type* T) {
            while (T->isPointerTy()) T = T->getPointerElementType();
            if (auto* F2 = dyn_cast<FunctionType>(T)) emitFT(F2);
        };
        dep(FT->getReturnType());
        for (Type* P : FT->params()) dep(P);
        os << "typedef " << ty(FT->getReturnType()) << " " << tyNames[FT] << "(";
        bool first = true;
        for (Type* P : FT->params())
        {
            os << (first ? "" : ", ") << ty(P);
            first = false;
        }
        if (FT->isVarArg()) os << (first ? "" : ", ...");
        else if (first) os << "void";
        os << ");\n";
    };
    for (size_t i = 0; i < fnTys.size(); ++i) emitFT(fnTys[i]);
    // pointer-buffer stand-ins for flagged byte arrays
    {
        std::set<uint64_t> sizes;
        for (auto& pb : ptrBuf) sizes.insert(pb.first->getElementType(pb.second)->getArrayNumElements());
        for (uint64_t n : sizes) os << "struct PB" << n << " { u8* a[" << n / 8 << "]; };\n";
    }
    // struct / array definitions
    std::set<Type*> doneS;
    std::function<void(Type*)> emitS = [&](Type* T) {
        if (!isAgg(T) || doneS.count(T)) return;
        doneS.insert(T);
        if (auto* S = dyn_cast<StructType>(T))
        {
            if (S->isOpaque()) return;
            for (Type* E : S->elements()) emitS(E);
            os << tyNames[T] << " {";
            unsigned k = 0;
            for (Type* E : S->elements())
            {
                if (isPtrBuf(S, k)) os << " struct PB" << E->getArrayNumElements() << " f" << k << ";";
                else
                    os << " " << ty(E) << " f" << k << ";";
                ++k;
            }
            os << " }" << (S->isPacked() ? " __attribute__((packed))" : "") << ";\n";
            if (S->isSized())
            {
                auto* SL = DL.getStructLayout(S);
                os << "_Static_assert(sizeof(" << tyNames[T] << ") == " << SL->getSizeInBytes() << ", \"size\");\n";
                for (unsigned i = 0; i < S->getNumElements(); ++i)
                    if (DL.getTypeAllocSize(S->getElementType(i)) > 0 || i + 1 < S->getNumElements())
                        os << "_Static_assert(__builtin_offsetof(" << tyNames[T] << ", f" << i << ") == " << SL->getElementOffset(i)
                           << ", \"off\");\n";
            }
        }
        else
        {
            Type* E = T->isArrayTy() ? T->getArrayElementType() : cast<FixedVectorType>(T)->getElementType();
            uint64_t N = T->isArrayTy() ? T->getArrayNumElements() : cast<FixedVectorType>(T)->getNumElements();
            emitS(E);
            os << tyNames[T] << " { " << ty(E) << " a[" << N << "]; };\n";
        }
    };
    for (size_t i = 0; i < structTys.size(); ++i) emitS(structTys[i]);
    for (size_t i = 0; i < arrayTys.size(); ++i) emitS(arrayTys[i]);
}

std::string Ctx::zeroOf(Type* T)
{
    if (T->isVoidTy()) return "";
    if (isAgg(T)) return "((" + ty(T) + "){0})";
    return "((" + ty(T) + ")0)";
}

int Ctx::typeIdFor(Value* ti)
{
    ti = ti->stripPointerCasts();
    if (isa<ConstantPointerNull>(ti)) return 1;
    auto* G = dyn_cast<GlobalVariable>(ti);
    if (!G) die("typeid of non-global");
    auto it = typeIds.find(G);
    if (it != typeIds.end()) return it->second;
    int id = 2 + (int) typeIds.size();
    typeIds[G] = id;
    return id;
}

static std::string intLit(const APInt& v, unsigned n)
{
    if (n == 1) return v.isZero() ? "((u1)0)" : "((u1)1)";
    if (n <= 64) return "((" + uty(n) + ")" + std::to_string(v.getZExtValue()) + "ULL)";
    APInt lo = v.trunc(64), hi = v.lshr(64).trunc(64);
    return "((((u128)" + std::to_string(hi.getZExtValue()) + "ULL) << 64) | (u128)" + std::to_string(lo.getZExtValue()) + "ULL)";
}

static std::string fpLit(const APFloat& f, Type* T)
{
    if (f.isNaN()) return "(0.0/0.0)";
    if (f.isInfinity()) return f.isNegative() ? "(-1.0/0.0)" : "(1.0/0.0)";
    char buf[64];
    double d;
    if (T->isFloatTy()) d = f.convertToFloat();
    else if (T->isDoubleTy()) d = f.convertToDouble();
    else die("fp literal type");
    snprintf(buf, sizeof buf, "%.17g", d);
    std::string s = buf;
    if (s.find_first_of(".en") == std::string::npos) s += ".0";
    return "((" + std::string(T->isFloatTy() ? "float" : "double") + ")" + s + ")";
}

std::string Ctx::cinit(Constant* C)
{
    Type* T = C->getType();
    if (!isAgg(T)) return cexpr(C);
    if (isa<ConstantAggregateZero>(C) || isa<UndefValue>(C)) return "{0}";
    std::string s;
    bool arr = !T->isStructTy();
    s = arr ? "{ {" : "{";
    unsigned n = 0;
    if (auto* CS = dyn_cast<ConstantAggregate>(C))
    {
        for (Value* Op : CS->operands()) s += (n++ ? ", " : " ") + cinit(cast<Constant>(Op));
    }
    else if (auto* CD = dyn_cast<ConstantDataSequential>(C))
    {
        for (unsigned i = 0; i < CD->getNumElements(); ++i) s += (n++ ? ", " : " ") + cinit(CD->getElementAsConstant(i));
    }
    else
        die("unsupported aggregate constant");
    if (n == 0) s += " 0";
    s += arr ? " } }" : " }";
    return s;
}

std::string Ctx::cexpr(Constant* C)
{
    Type* T = C->getType();
    if (auto* CI = dyn_cast<ConstantInt>(C)) return intLit(CI->getValue(), T->getIntegerBitWidth());
    if (auto* CF = dyn_cast<ConstantFP>(C)) return fpLit(CF->getValueAPF(), T);
    if (isa<ConstantPointerNull>(C)) return "((" + ty(T) + ")0)";
    if (isa<UndefValue>(C)) return zeroOf(T);
    if (auto* GA = dyn_cast<GlobalAlias>(C)) return cexpr(GA->getAliasee());
    if (auto* G = dyn_cast<GlobalVariable>(C))
    {
        if (!reachG.count(G)) die("global not marked reachable: " + G->getName().str());
        if (G->isThreadLocal()) return "(&" + gname(G) + "[verif_cur])";    // one copy per harness thread slot
        return "(&" + gname(G) + ")";
    }
    if (auto* F = dyn_cast<Function>(C))
    {
        if (isExt(F)) usedExternals.insert(F);
        return "(&" + gname(F) + ")";
    }
    if (auto* CE = dyn_cast<ConstantExpr>(C))
        return pureExpr(CE->getOpcode(), CE, [&](Value* V) { return cexpr(cast<Constant>(V)); });
    if (isAgg(T)) return "((" + ty(T) + ")" + cinit(C) + ")";
    std::string s;
    raw_string_ostream o(s);
    C->print(o);
    die("unsupported constant " + o.str());
}

void Ctx::computePtrBufs()
{
    if (ptrBufOwners.empty()) return;
    auto flagInner = [&](StructType* U) {
        // a union-like member: a struct with exactly one element, a byte array of 16..64 bytes, multiple of 8
        if (U->isOpaque() || U->getNumElements() != 1) return;
        auto* A = dyn_cast<ArrayType>(U->getElementType(0));
        if (!A || !A->getElementType()->isIntegerTy(8)) return;
        uint64_t n = A->getNumElements();
        if (n < 16 || n > 64 || n % 8) return;
        ptrBuf.insert({U, 0u});
    };
    for (StructType* S : M.getIdentifiedStructTypes())
    {
        if (S->isOpaque() || !S->hasName()) continue;
        bool owner = false;
        for (auto& o : ptrBufOwners)
            if (S->getName().contains(o)) owner = true;
        if (!owner) continue;
        for (unsigned k = 0; k < S->getNumElements(); ++k)
        {
            Type* E = S->getElementType(k);
            if (auto* U = dyn_cast<StructType>(E)) flagInner(U);
            else if (auto* A = dyn_cast<ArrayType>(E); A && A->getElementType()->isIntegerTy(8) && A->getNumElements() >= 16 && A->getNumElements() <= 64 &&
                     A->getNumElements() % 8 == 0)
                ptrBuf.insert({S, k});
        }
    }
}

std::string Ctx::gepExpr(GEPOperator* G, std::function<std::string(Value*)> val)
{
    Type* cur = G->getSourceElementType();
    if (G->getType()->isVectorTy()) die("vector GEP");
    std::string L;
    auto it = G->idx_begin();
    Value* i0 = *it;
    std::string base = val(G->getPointerOperand());
    // typed pointers: pointer operand type == cur*
    auto idxStr = [&](Value* I) -> std::string {
        if (auto* CI = dyn_cast<ConstantInt>(I)) return std::to_string(CI->getSExtValue());
        return "(s64)" + sextOf(I->getType()->getIntegerBitWidth(), val(I));
    };
    L = "(" + base + ")[" + idxStr(i0) + "]";
    ++it;
    for (; it != G->idx_end(); ++it)
    {
        if (auto* S = dyn_cast<StructType>(cur))
        {
            unsigned k = cast<ConstantInt>(*it)->getZExtValue();
            L += ".f" + std::to_string(k);
            cur = S->getElementType(k);
            if (isPtrBuf(S, k))
            {
                // the field is emitted as an array of pointers: a byte index becomes a pointer-slot index (or byte arithmetic)
                ++it;
                if (it == G->idx_end()) return "((" + ty(cur) + "*)(&" + L + "))";    // pointer to the whole byte array
                Value* BI = *it;
                ++it;
                if (it != G->idx_end()) die("GEP below a byte of a pointer buffer");
                if (auto* CI = dyn_cast<ConstantInt>(BI); CI && CI->getSExtValue() >= 0 && CI->getSExtValue() % 8 == 0)
                    return "((u8*)(&" + L + ".a[" + std::to_string(CI->getSExtValue() / 8) + "]))";
                return "(((u8*)(&" + L + ".a[0])) + (" + idxStr(BI) + "))";
            }
        }
        else if (cur->isArrayTy())
        {
            L += ".a[" + idxStr(*it) + "]";
            cur = cur->getArrayElementType();
        }
        else if (auto* V = dyn_cast<FixedVectorType>(cur))
        {
            L += ".a[" + idxStr(*it) + "]";
            cur = V->getElementType();
        }
        else
            die("GEP into non-aggregate");
    }
    return "(&" + L + ")";
}

std::string Ctx::pureExpr(unsigned opc, User* U, std::function<std::string(Value*)> val)
{
    Type* T = U->getType();
    auto op = [&](unsigned i) { return val(U->getOperand(i)); };
    auto bits = [&](Type* X) { return X->getIntegerBitWidth(); };
    auto wide = [&](unsigned n, const std::string& e) {    // cast to computation type (>= 32 bits, unsigned)
        unsigned w = std::max(32u, containerBits(n));
        return "((u" + std::to_string(w) + ")" + e + ")";
    };
    switch (opc)
    {
    case Instruction::Add:
    case Instruction::Sub:
    case Instruction::Mul:
    case Instruction::And:
    case Instruction::Or:
    case Instruction::Xor:
    case Instruction::Shl:
    case Instruction::LShr:
    case Instruction::UDiv:
    case Instruction::URem:
    {
        if (T->isVectorTy()) die("vector arithmetic");
        unsigned n = bits(T);
        const char* o = opc == Instruction::Add ? "+" :
            opc == Instruction::Sub            ? "-" :
            opc == Instruction::Mul            ? "*" :
            opc == Instruction::And            ? "&" :
            opc == Instruction::Or             ? "|" :
            opc == Instruction::Xor            ? "^" :
            opc == Instruction::Shl            ? "<<" :
            opc == Instruction::LShr           ? ">>" :
            opc == Instruction::UDiv           ? "/" :
                                                 "%";
        return maskTo(n, wide(n, op(0)) + " " + o + " " + wide(n, op(1)));
    }
    case Instruction::SDiv:
    case Instruction::SRem:
    {
        unsigned n = bits(T);
        unsigned w = std::max(32u, containerBits(n));
        std::string st = "(s" + std::to_string(w) + ")";
        return maskTo(n, st + sextOf(n, op(0)) + (opc == Instruction::SDiv ? " / " : " % ") + st + sextOf(n, op(1)));
    }
    case Instruction::AShr:
    {
        unsigned n = bits(T);
        unsigned w = std::max(32u, containerBits(n));
        std::string st = "(s" + std::to_string(w) + ")";
        return maskTo(n, st + sextOf(n, op(0)) + " >> " + wide(n, op(1)));
    }
    case Instruction::FAdd: return "(" + op(0) + " + " + op(1) + ")";
    case Instruction::FSub: return "(" + op(0) + " - " + op(1) + ")";
    case Instruction::FMul: return "(" + op(0) + " * " + op(1) + ")";
    case Instruction::FDiv: return "(" + op(0) + " / " + op(1) + ")";
    case Instruction::FNeg: return "(-" + op(0) + ")";
    case Instruction::ICmp:
    case Instruction::FCmp:
    {
        unsigned pred = isa<CmpInst>(U) ? cast<CmpInst>(U)->getPredicate() : cast<ConstantExpr>(U)->getPredicate();
        Type* OT = U->getOperand(0)->getType();
        if (OT->isVectorTy()) die("vector compare");
        if (opc == Instruction::FCmp)
        {
            std::string a = op(0), b = op(1);
            auto o = [&](const char* c) { return "((u1)(" + a + " " + c + " " + b + "))"; };
            auto u = [&](const char* c) { return "((u1)!(" + a + " " + c + " " + b + "))"; };
            switch (pred)
            {
            case CmpInst::FCMP_OEQ: return o("==");
            case CmpInst::FCMP_OGT: return o(">");
            case CmpInst::FCMP_OGE: return o(">=");
            case CmpInst::FCMP_OLT: return o("<");
            case CmpInst::FCMP_OLE: return o("<=");
            case CmpInst::FCMP_ONE: return "((u1)(" + a + " < " + b + " || " + a + " > " + b + "))";
            case CmpInst::FCMP_UNE: return o("!=");
            case CmpInst::FCMP_UEQ: return "((u1)!(" + a + " < " + b + " || " + a + " > " + b + "))";
            case CmpInst::FCMP_UGT: return u("<=");
            case CmpInst::FCMP_UGE: return u("<");
            case CmpInst::FCMP_ULT: return u(">=");
            case CmpInst::FCMP_ULE: return u(">");
            case CmpInst::FCMP_ORD: return "((u1)(" + a + " == " + a + " && " + b + " == " + b + "))";
            case CmpInst::FCMP_UNO: return "((u1)(" + a + " != " + a + " || " + b + " != " + b + "))";
            case CmpInst::FCMP_TRUE: return "((u1)1)";
            case CmpInst::FCMP_FALSE: return "((u1)0)";
            }
            die("fcmp predicate");
        }
        std::string a = op(0), b = op(1);
        bool ptr = OT->isPointerTy();
        if (ptr)
        {
            a = "((u64)(uintptr_t)" + a + ")";
            b = "((u64)(uintptr_t)" + b + ")";
            if (pred == CmpInst::ICMP_EQ || pred == CmpInst::ICMP_NE)
            {
                a = "((u8*)" + op(0) + ")";
                b = "((u8*)" + op(1) + ")";
            }
        }
        unsigned n = ptr ? 64 : bits(OT);
        const char* c = nullptr;
        bool sg = false;
        switch (pred)
        {
        case CmpInst::ICMP_EQ: c = "=="; break;
        case CmpInst::ICMP_NE: c = "!="; break;
        case CmpInst::ICMP_UGT: c = ">"; break;
        case CmpInst::ICMP_UGE: c = ">="; break;
        case CmpInst::ICMP_ULT: c = "<"; break;
        case CmpInst::ICMP_ULE: c = "<="; break;
        case CmpInst::ICMP_SGT: c = ">", sg = true; break;
        case CmpInst::ICMP_SGE: c = ">=", sg = true; break;
        case CmpInst::ICMP_SLT: c = "<", sg = true; break;
        case CmpInst::ICMP_SLE: c = "<=", sg = true; break;
        default: die("icmp predicate");
        }
        if (sg)
        {
            a = sextOf(n, a);
            b = sextOf(n, b);
        }
        return "((u1)(" + a + " " + c + " " + b + "))";
    }
    case Instruction::Select: return "(" + op(0) + " ? " + op(1) + " : " + op(2) + ")";
    case Instruction::Trunc: return maskTo(bits(T), op(0));
    case Instruction::ZExt: return "((" + ty(T) + ")" + op(0) + ")";
    case Instruction::SExt:
    {
        unsigned n2 = bits(T), n1 = bits(U->getOperand(0)->getType());
        return maskTo(n2, "(" + sty(n2) + ")" + sextOf(n1, op(0)));
    }
    case Instruction::PtrToInt: return maskTo(bits(T), "(uintptr_t)" + op(0));
    case Instruction::IntToPtr: return "((" + ty(T) + ")(uintptr_t)" + op(0) + ")";
    case Instruction::BitCast:
    {
        Type* ST = U->getOperand(0)->getType();
        if (T->isPointerTy() && ST->isPointerTy()) return "((" + ty(T) + ")" + op(0) + ")";
        if (T == ST) return op(0);
        if (T->isIntegerTy() && ST->isDoubleTy()) return "verif_d2u(" + op(0) + ")";
        if (T->isDoubleTy() && ST->isIntegerTy()) return "verif_u2d(" + op(0) + ")";
        if (T->isIntegerTy() && ST->isFloatTy()) return "verif_f2u(" + op(0) + ")";
        if (T->isFloatTy() && ST->isIntegerTy()) return "verif_u2f(" + op(0) + ")";
        die("unsupported bitcast");
    }
    case Instruction::FPToUI: return maskTo(bits(T), "(" + uty(std::max(32u, bits(T))) + ")" + op(0));
    case Instruction::FPToSI: return maskTo(bits(T), "(" + sty(std::max(32u, bits(T))) + ")" + op(0));
    case Instruction::UIToFP: return "((" + ty(T) + ")" + op(0) + ")";
    case Instruction::SIToFP: return "((" + ty(T) + ")" + sextOf(bits(U->getOperand(0)->getType()), op(0)) + ")";
    case Instruction::FPExt:
    case Instruction::FPTrunc: return "((" + ty(T) + ")" + op(0) + ")";
    case Instruction::GetElementPtr: return gepExpr(cast<GEPOperator>(U), val);
    case Instruction::Freeze: return op(0);
    default: die(std::string("unsupported opcode ") + Instruction::getOpcodeName(opc));
    }
}

bool gRefcountMovers = false;
// reference-count shaped update: fetch_add(1) whose result is unused, or fetch_sub(1) whose result is only
// compared against a constant (== 1 / == 0: "was I the last one")
static bool isRefcountRMW(const Instruction& I)
{
    auto* R = dyn_cast<AtomicRMWInst>(&I);
    if (!R) return false;
    auto* K = dyn_cast<ConstantInt>(R->getValOperand());
    if (!K || !(K->isOne() || K->isMinusOne())) return false;
    bool inc = (R->getOperation() == AtomicRMWInst::Add && K->isOne()) || (R->getOperation() == AtomicRMWInst::Sub && K->isMinusOne());
    bool dec = (R->getOperation() == AtomicRMWInst::Sub && K->isOne()) || (R->getOperation() == AtomicRMWInst::Add && K->isMinusOne());
    if (inc) return R->use_empty();
    if (!dec) return false;
    for (const User* U : R->users())
    {
        auto* C = dyn_cast<ICmpInst>(U);
        if (!C || !C->isEquality() || !(isa<ConstantInt>(C->getOperand(0)) || isa<ConstantInt>(C->getOperand(1)))) return false;
    }
    return true;
}
bool isVisibleInst(const Instruction& I)
{
    if (gRefcountMovers && isRefcountRMW(I)) return false;
    if (I.isAtomic()) return true;
    if (auto* CB = dyn_cast<CallBase>(&I))
        if (auto* F = CB->getCalledFunction())
        {
            StringRef n = F->getName();
            if (n.startswith("__atomic_")) return true;
            if (n == "verif_block_until" || n == "verif_spin" || n == "verif_spin_timed" || n == "verif_yield") return true;
        }
    return false;
}

bool compatibleFT(FunctionType* A, FunctionType* B)
{
    if (A == B) return true;
    auto same = [](Type* x, Type* y) { return x == y || (x->isPointerTy() && y->isPointerTy()); };
    if (A->isVarArg() != B->isVarArg() || A->getNumParams() != B->getNumParams()) return false;
    if (!same(A->getReturnType(), B->getReturnType())) return false;
    for (unsigned i = 0; i < A->getNumParams(); ++i)
        if (!same(A->getParamType(i), B->getParamType(i))) return false;
    return true;
}

// Targets of an indirect call.  Virtual calls (callee loaded from slot k of a vtable that was itself loaded from
// the object) are resolved through the vtables present in the module: only functions stored in slot k of
// some vtable (address point = element 2 of each vtable array) qualify.  Other indirect calls: every
// address-taken function of compatible type.
// class-hierarchy filter for virtual calls: the candidate's `this` class must contain the static class of the
// call's `this` argument as a (transitive) base subobject (or be it).  LLVM struct types of derived classes
// embed their bases by value (possibly as the tail-padding-free "<name>.base" twin).
static std::string baseName(StructType* S)
{
    std::string n = S->hasName() ? S->getName().str() : std::string();
    if (n.size() > 5 && n.compare(n.size() - 5, 5, ".base") == 0) n.resize(n.size() - 5);
    return n;
}
static bool containsBase(Type* Y, StructType* X, int depth = 0)
{
    auto* S = dyn_cast<StructType>(Y);
    if (!S || depth > 12) return false;
    if (S == X || (S->hasName() && X->hasName() && baseName(S) == baseName(X))) return true;
    if (S->isOpaque()) return false;
    for (Type* E : S->elements())
        if (containsBase(E, X, depth + 1)) return true;
    return false;
}
static bool thisCompatible(CallBase* CB, Function* F)
{
    if (CB->arg_size() == 0 || F->arg_size() == 0) return true;
    Type* A = CB->getArgOperand(0)->getType();
    Type* P = F->getFunctionType()->getParamType(0);
    if (!A->isPointerTy() || !P->isPointerTy()) return true;
    auto* X = dyn_cast<StructType>(A->getPointerElementType());
    auto* Y = dyn_cast<StructType>(P->getPointerElementType());
    if (!X || !Y) return true;    // type-erased (i8*) this: no information
    return containsBase(Y, X) || (!getenv("VERIF_NO_BASECOMPAT") && containsBase(X, Y));    // an override in a derived class, or a member inherited from a base
}

std::vector<Function*> Ctx::indirectTargets(CallBase* CB)
{
    std::vector<Function*> out;
    FunctionType* FT = CB->getFunctionType();
    Value* CV = CB->getCalledOperand()->stripPointerCasts();
    long slot = -1;
    if (auto* L = dyn_cast<LoadInst>(CV))
    {
        Value* P = L->getPointerOperand()->stripPointerCasts();
        Value* Base = P;
        long k = 0;
        if (auto* G = dyn_cast<GetElementPtrInst>(P))
            if (G->getNumIndices() == 1)
                if (auto* CI = dyn_cast<ConstantInt>(G->getOperand(1)))
                {
                    k = CI->getSExtValue();
                    Base = G->getPointerOperand()->stripPointerCasts();
                }
        if (auto* VL = dyn_cast<LoadInst>(Base))
            if (VL->getType()->isPointerTy() && VL->getType()->getPointerElementType()->isPointerTy() &&
                VL->getType()->getPointerElementType()->getPointerElementType()->isFunctionTy())
                slot = k;
    }
    if (slot >= 0)
    {
        std::set<Function*> seen;
        for (GlobalVariable* G : globals)
        {
            if (!G->getName().startswith("_ZTV") || !G->hasInitializer()) continue;
            auto* CS = dyn_cast<ConstantStruct>(G->getInitializer());
            if (!CS) continue;
            for (Value* Arr : CS->operands())
            {
                auto* CA = dyn_cast<ConstantArray>(Arr);
                if (!CA || CA->getNumOperands() <= (unsigned) (2 + slot)) continue;
                auto* F = dyn_cast<Function>(CA->getOperand(2 + slot)->stripPointerCasts());
                if (F && !isExt(F) && compatibleFT(F->getFunctionType(), FT) && thisCompatible(CB, F) && seen.insert(F).second) out.push_back(F);
            }
        }
        return out;
    }
    // plain function pointers are typed: if address-taken functions of exactly the call's type exist, only those
    for (Function* H : addrTaken)
        if (!isExt(H) && H->getFunctionType() == FT) out.push_back(H);
    if (!out.empty()) return out;
    for (Function* H : addrTaken)
        if (!isExt(H) && compatibleFT(H->getFunctionType(), FT)) out.push_back(H);
    return out;
}
