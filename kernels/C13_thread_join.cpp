// C13 — pika::thread::join (real thread.cpp, thread_data exit callbacks, thread_function_nullary).
#include "env_threads.hpp"
#include "env_pool.hpp"
#include </repo/libs/pika/threading/src/thread.cpp>

static verif_pool* pool;
static pika::thread* th;
static int body_done, body_started;

static void target_body()
{
    body_started = 1;
    verif_yield();
    body_done = 1;
}
extern "C" void jn_init()
{
    pool = new verif_pool();
    verif_become_task(3);    // the creating context is a task too
    th = new pika::thread(static_cast<ptd::thread_pool_base*>(pool), &target_body);
    verif_assert(th->joinable(), "a started thread is joinable");
    verif_assert(verif_ncreated == 1, "exactly one task was created for the thread");
}
// joiner
extern "C" void jn_thread_0()
{
    verif_become_task(0);
    th->join();
    verif_assert(body_done, "join returns only after the thread function has returned");
    verif_assert(!th->joinable(), "after join the handle is not joinable");
    bool err = false;
    try
    {
        th->join();
    }
    catch (verif_pika_error const& e)
    {
        err = e.code == (int) pika::error::invalid_status;
    }
    verif_assert(err, "joining twice is reported as invalid_status");
}
// the worker that runs the new task: first phase of a stackless task = whole body, then exit callbacks
extern "C" void jn_thread_1()
{
    ptd::thread_data* td = verif_created[0];
    td->set_state(ptd::thread_schedule_state::active);
    static_cast<ptd::thread_data_stackless*>(td)->call();
    td->set_state(ptd::thread_schedule_state::terminated);
}
extern "C" void jn_final() { verif_cover(0); }
