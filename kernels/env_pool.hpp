// A stand-in thread pool (environment): implements the public abstract interface thread_pool_base.
// create_work / create_thread record the task function; the harness decides when (and on which harness
// thread) a recorded task runs.  Nothing of pika's scheduling logic lives here.
#pragma once
#include <pika/threading_base/register_thread.hpp>
#include <pika/threading_base/thread_data_stackless.hpp>
#include <pika/threading_base/thread_pool_base.hpp>
#include "verif.h"

#ifndef VERIF_MAX_SPAWN
#define VERIF_MAX_SPAWN 4
#endif

static pika::threads::detail::thread_function_type verif_spawned[VERIF_MAX_SPAWN];
static int verif_nspawned;
static void const* verif_spawned_pool[VERIF_MAX_SPAWN];    // which pool each task was registered on
static int verif_spawned_hint_mode[VERIF_MAX_SPAWN], verif_spawned_hint[VERIF_MAX_SPAWN], verif_spawned_prio[VERIF_MAX_SPAWN], verif_spawned_stack[VERIF_MAX_SPAWN];
static pika::threads::detail::thread_data* verif_created[VERIF_MAX_SPAWN];    // task objects made by create_thread
static int verif_ncreated;
static std::size_t verif_pool_workers = 1, verif_local_worker = 0;
alignas(64) static unsigned char verif_notifier_storage[256];
alignas(64) static unsigned char verif_affinity_storage[1024];

namespace pika {
    std::size_t get_local_worker_thread_num() { return verif_local_worker; }
}
namespace pika::threads::detail {
    thread_pool_base::thread_pool_base(thread_pool_init_parameters const& init)
      : id_(init.index_, init.name_)
      , thread_offset_(init.thread_offset_)
      , affinity_data_(init.affinity_data_)
      , timestamp_scale_(1.0)
      , notifier_(init.notifier_)
    {
    }
    void thread_pool_base::init(std::size_t, std::size_t) {}
    std::size_t thread_pool_base::get_active_os_thread_count() const { return verif_pool_workers; }
}    // namespace pika::threads::detail

struct verif_pool final : pika::threads::detail::thread_pool_base
{
    using ec_t = pika::error_code;
    verif_pool()
      : thread_pool_base(pika::threads::detail::thread_pool_init_parameters("verif", 0, pika::threads::scheduler_mode{}, 1, 0,
            reinterpret_cast<pika::threads::callback_notifier&>(verif_notifier_storage),
            reinterpret_cast<pika::detail::affinity_data&>(verif_affinity_storage)))
    {
    }
    static void unused() { verif_assert(0, "unmodelled thread pool operation used"); verif_assume(0); }
    std::size_t get_os_thread_count() const override { return verif_pool_workers; }
    pika::threads::detail::thread_id_ref_type create_work(pika::threads::detail::thread_init_data& data, ec_t&) override
    {
        verif_assert(verif_nspawned < VERIF_MAX_SPAWN, "harness bound: too many spawned tasks");
        verif_spawned_pool[verif_nspawned] = this;
        verif_spawned_hint_mode[verif_nspawned] = (int) data.schedulehint.mode;
        verif_spawned_hint[verif_nspawned] = (int) data.schedulehint.hint;
        verif_spawned_prio[verif_nspawned] = (int) data.priority;
        verif_spawned_stack[verif_nspawned] = (int) data.stacksize;
        verif_spawned[verif_nspawned++] = std::move(data.func);
        return {};
    }
    // a real (stackless) task object is created; the harness decides which harness thread runs it and when
    void create_thread(pika::threads::detail::thread_init_data& data, pika::threads::detail::thread_id_ref_type& id, ec_t&) override
    {
#ifdef VERIF_POOL_REAL_THREADS
        verif_assert(verif_ncreated < VERIF_MAX_SPAWN, "harness bound: too many created threads");
        pika::threads::detail::thread_data* td = pika::threads::detail::thread_data_stackless::create(data, nullptr, 0x8000);
        intrusive_ptr_add_ref(td);    // the harness keeps the object alive (no scheduler to hand it back to)
        verif_created[verif_ncreated++] = td;
        id = pika::threads::detail::thread_id_ref_type(td, pika::threads::detail::thread_id_addref::no);
#else
        (void) data;
        (void) id;
        unused();    // kernels without real task objects only use create_work
#endif
    }
    bool run(std::unique_lock<std::mutex>&, std::size_t) override { unused(); return false; }
    void stop(std::unique_lock<std::mutex>&, bool) override { unused(); }
    void wait() override { unused(); }
    bool is_busy() override { unused(); return false; }
    bool is_idle() override { unused(); return false; }
    void print_pool(std::ostream&) override { unused(); }
    void suspend_processing_unit_direct(std::size_t, ec_t&) override { unused(); }
    void resume_processing_unit_direct(std::size_t, ec_t&) override { unused(); }
    void resume_direct(ec_t&) override { unused(); }
    void suspend_direct(ec_t&) override { unused(); }
    std::thread& get_os_thread_handle(std::size_t) override { unused(); return *reinterpret_cast<std::thread*>(verif_notifier_storage); }
    pika::threads::detail::thread_state set_state(pika::threads::detail::thread_id_type const&, pika::threads::detail::thread_schedule_state,
        pika::threads::detail::thread_restart_state, pika::execution::thread_priority, ec_t&) override
    {
        unused();
        return {};
    }
    std::int64_t get_scheduler_utilization() const override { return 0; }
    std::int64_t get_idle_loop_count(std::size_t, bool) override { return 0; }
    std::int64_t get_busy_loop_count(std::size_t, bool) override { return 0; }
    pika::runtime_state get_state() const override { return pika::runtime_state::running; }
    pika::runtime_state get_state(std::size_t) const override { return pika::runtime_state::running; }
    bool has_reached_state(pika::runtime_state) const override { return true; }
};
