#!/bin/sh
# lower.sh <kernel.cpp> <out.ll> [extra clang flags]: real pika sources -> LLVM IR
set -e
K="$1"; O="$2"; shift 2
INC=""
for d in /repo/libs/pika/*/include; do INC="$INC -I$d"; done
CFG=/repo/_build; [ -d /repo/_build/libs/pika/config/include ] || CFG=/verif/.cfg
for d in $CFG/libs/pika/*/include; do INC="$INC -I$d"; done
exec clang++-14 -std=c++20 -O1 -fno-vectorize -fno-slp-vectorize -fno-unroll-loops \
  -fsanitize=unreachable -fsanitize-trap=unreachable -Wno-everything -mllvm -inline-threshold=${VERIF_INLINE:-225} \
  ${VERIF_SHIM:+-I$VERIF_SHIM} -I/verif/shim -I/verif/rt -I/verif/kernels $INC -I$CFG -DPIKA_DEBUG \
  "$@" -S -emit-llvm "$K" -o "$O"
