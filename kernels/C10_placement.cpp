// C10 (reduced) — work runs where it was sent, at the scheduler/pool level: real thread_pool_scheduler
// (execute, schedule sender operation state), real schedule_from / continues_on; two stand-in pools that
// record which pool each task was registered on (env_pool.hpp).  The callable must never run inside the
// submitting call, must be registered on exactly the scheduler's pool, and the continuation after
// continues_on(s) must run inside a task of s's pool.
#include "env_pre.hpp"
#include <pika/execution/algorithms/continues_on.hpp>
#include <pika/execution/algorithms/just.hpp>
#include <pika/execution/algorithms/then.hpp>
#include <pika/executors/thread_pool_scheduler.hpp>
#include </repo/libs/pika/functional/src/basic_function.cpp>
#include </repo/libs/pika/functional/src/empty_function.cpp>
#include "env_errors.hpp"
#include "env_pool.hpp"

namespace ex = pika::execution::experimental;
namespace ptd = pika::threads::detail;
namespace pika {
    [[noreturn]] void throw_exception(error e, std::string const&, std::string const&) { verif_detail::throw_exception(e); }
}
#include </repo/libs/pika/threading_base/src/get_default_pool.cpp>    // real get_self_or_default_pool
namespace pika::threads::detail {
    // the submitter is a non-pika OS thread ("created from outside the runtime"): no self, the default-pool handler decides
    thread_id_type get_self_id() { return invalid_thread_id; }
    thread_data* get_self_id_data() { return nullptr; }
    void thread_data::run_thread_exit_callbacks() {}
    void thread_data::free_thread_exit_callbacks() {}
    ::pika::detail::thread_description get_thread_description(thread_id_type const&, error_code&) { return ::pika::detail::thread_description(); }
}    // namespace pika::threads::detail

static verif_pool* default_pool;
static void const* running_in_pool;    // set while the harness runs a spawned task (= "on a worker of that pool")
static int signals, value_seen, ran_f, submitting;
static void const* f_pool;

struct recv
{
    PIKA_STDEXEC_RECEIVER_CONCEPT
    void set_value() && noexcept
    {
        verif_assert(!submitting, "the receiver is never signalled inside the call that submitted the work");
        ++signals;
        f_pool = running_in_pool;
    }
    void set_value(int v) && noexcept
    {
        verif_assert(!submitting, "the receiver is never signalled inside the call that submitted the work");
        ++signals;
        value_seen = v;
        f_pool = running_in_pool;
    }
    void set_error(std::exception_ptr) && noexcept { verif_assert(0, "no error expected"); }
    void set_stopped() && noexcept { verif_assert(0, "no stopped expected"); }
    constexpr ex::empty_env get_env() const& noexcept { return {}; }
};
static void run_spawned(int k)
{
    running_in_pool = verif_spawned_pool[k];
    verif_spawned[k](ptd::thread_restart_state::signaled);
    running_in_pool = nullptr;
}

extern "C" void plc_main()
{
    verif_pool* A = new verif_pool();
    verif_pool* B = new verif_pool();
    default_pool = A;    // what a pool-less register_work would pick for this submitter
    ptd::set_get_default_pool([]() -> pika::threads::detail::thread_pool_base* { return default_pool; });
    bool useB = verif_nondet_range(0, 1);
    verif_pool* target = useB ? B : A;
    // scheduler properties chosen by the submitter: worker hint, priority, stack size
    bool hinted = verif_nondet_range(0, 1);
    std::int16_t hint = (std::int16_t) verif_nondet_range(0, 3);
    unsigned pr = verif_nondet_range(0, 2), st = verif_nondet_range(0, 1);
    auto prio = pr == 0 ? pika::execution::thread_priority::normal : pr == 1 ? pika::execution::thread_priority::high : pika::execution::thread_priority::low;
    auto stack = st == 0 ? pika::execution::thread_stacksize::small_ : pika::execution::thread_stacksize::large;
    ex::thread_pool_scheduler sched0(target);
    auto sched1 = ex::with_priority(ex::with_stacksize(sched0, stack), prio);
    ex::thread_pool_scheduler sched = hinted ? ex::with_hint(sched1, pika::execution::thread_schedule_hint(hint)) : sched1;
    unsigned what = verif_nondet_range(0, 2);
    if (what == 0)
    {
        // schedule(sched): start() registers exactly one task on the scheduler's pool and does not run the receiver
        auto op = ex::connect(ex::schedule(sched), recv{});
        submitting = 1;
        ex::start(op);
        submitting = 0;
        verif_assert(signals == 0, "schedule: nothing runs inside start()");
        verif_assert(verif_nspawned == 1 && verif_spawned_pool[0] == target, "schedule: exactly one task registered, on the scheduler's pool");
        run_spawned(0);
        verif_assert(signals == 1 && f_pool == target, "schedule: the receiver runs in a task of that pool");
    }
    else if (what == 1)
    {
        // execute(f)
        submitting = 1;
        sched.execute([] { verif_assert(!submitting, "execute: f never runs inside the submitting call"); ++ran_f; f_pool = running_in_pool; }, "verif");
        submitting = 0;
        verif_assert(ran_f == 0 && verif_nspawned == 1 && verif_spawned_pool[0] == target, "execute: one task registered on the scheduler's pool, not run inline");
        run_spawned(0);
        verif_assert(ran_f == 1 && f_pool == target, "execute: f runs in a task of that pool");
    }
    else
    {
        // continues_on(just(7), sched) | then(...): the continuation runs on sched's pool, values unchanged
        // the scheduler reaches schedule_from as an lvalue or as an rvalue (as in every `sender | continues_on(s)` pipe)
        bool as_rvalue = verif_nondet_range(0, 1);
        ex::thread_pool_scheduler sched_copy = sched;
        auto s = ex::then(as_rvalue ? ex::continues_on(ex::just(7), std::move(sched_copy)) : ex::continues_on(ex::just(7), sched), [](int v) {
            verif_assert(!submitting, "continues_on: the continuation never runs inside the submitting call");
            verif_assert(running_in_pool != nullptr, "continues_on: the continuation runs inside a pool task");
            return v + 1;
        });
        auto op = ex::connect(std::move(s), recv{});
        submitting = 1;
        ex::start(op);
        submitting = 0;
        verif_assert(signals == 0 && verif_nspawned == 1 && verif_spawned_pool[0] == target, "continues_on: one task registered on the target scheduler's pool");
        run_spawned(0);
        verif_assert(signals == 1 && value_seen == 8 && f_pool == target, "continues_on: values forwarded to a continuation running on the target pool");
    }
    // the task that was registered carries exactly the submitter's hint, priority and stack size to the pool
    verif_assert(verif_spawned_prio[0] == (int) prio, "the requested priority reaches the pool unchanged");
    verif_assert(verif_spawned_stack[0] == (int) stack, "the requested stack size reaches the pool unchanged");
    if (hinted)
        verif_assert(verif_spawned_hint_mode[0] == (int) pika::execution::thread_schedule_hint_mode::thread && verif_spawned_hint[0] == hint,
            "a worker hint reaches the pool unchanged (mode thread, same worker index)");
    else
        verif_assert(verif_spawned_hint_mode[0] == (int) pika::execution::thread_schedule_hint_mode::none, "no hint requested: none reaches the pool");
    verif_cover(0);
}
