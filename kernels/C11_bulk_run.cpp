// C11 scenario B — the real bulk operation state: thread_pool_bulk_sender -> connect -> start -> real
// set_value (chunking, queue initialisation, spawning), real task_function (local drain from the left,
// stealing from the right, do_work_chunk, finish).  Environment: stand-in pool recording spawned tasks
// (env_pool.hpp); the spawned worker tasks are run by the harness in an arbitrary order after start().
#include "env_pre.hpp"
#include <pika/execution/algorithms/just.hpp>
#include <pika/executors/thread_pool_scheduler_bulk.hpp>
#include </repo/libs/pika/functional/src/basic_function.cpp>
#include </repo/libs/pika/functional/src/empty_function.cpp>
#include "env_errors.hpp"
#include "env_pool.hpp"

namespace ex = pika::execution::experimental;
namespace ptd = pika::threads::detail;

#ifndef NMAX
#define NMAX 24
#endif

namespace pika {
    [[noreturn]] void throw_exception(error e, std::string const&, std::string const&) { verif_detail::throw_exception(e); }
}
namespace pika::threads::detail {
    // the worker tasks are run by the harness, not by a pika thread: identity and exit callbacks are environment
    static long self_dummy;
    thread_id_type get_self_id() { return thread_id_type(&self_dummy); }
    thread_data* get_self_id_data() { return reinterpret_cast<thread_data*>(&self_dummy); }
    void thread_data::run_thread_exit_callbacks() {}
    void thread_data::free_thread_exit_callbacks() {}
    ::pika::detail::thread_description get_thread_description(thread_id_type const&, error_code&) { return ::pika::detail::thread_description(); }
}    // namespace pika::threads::detail

static int hits[NMAX + 8], calls, out_of_range, wrong_value, done_value = -1, n_set_value, n_set_error, n_set_stopped, calls_after_done;
static int shape_n;

struct body_f
{
    void operator()(int i, int& v) const
    {
        ++calls;
        if (n_set_value + n_set_error + n_set_stopped) ++calls_after_done;
        if (v != 42) ++wrong_value;
        if (i < 0 || i >= shape_n) ++out_of_range;
        else
        {
            verif_assert(hits[i] == 0, "f is invoked at most once per index");
            ++hits[i];
        }
    }
};
struct recv
{
    PIKA_STDEXEC_RECEIVER_CONCEPT
    void set_value(int v) && noexcept { ++n_set_value; done_value = v; }
    void set_error(std::exception_ptr) && noexcept { ++n_set_error; }
    void set_stopped() && noexcept { ++n_set_stopped; }
    constexpr ex::empty_env get_env() const& noexcept { return {}; }
};

extern "C" void run_main()
{
    verif_pool_workers = (std::size_t) verif_param(0);
    verif_local_worker = verif_nondet_range(0, (unsigned) verif_pool_workers - 1);
    shape_n = (int) verif_nondet_range(0, NMAX);
    verif_pool* pool = new verif_pool();
    ex::thread_pool_scheduler sched(pool);
    using just_t = decltype(ex::just(42));
    pika::thread_pool_bulk_detail::thread_pool_bulk_sender<just_t, int, body_f> snd{std::move(sched), ex::just(42), (int) shape_n, body_f{}};
    auto op = ex::connect(std::move(snd), recv{});
    ex::start(op);
    // spawned worker tasks, in an arbitrary order
    bool ran[VERIF_MAX_SPAWN] = {};
    for (int k = 0; k < verif_nspawned; ++k)
    {
        unsigned pick = verif_nondet_range(0, (unsigned) verif_nspawned - 1);
        verif_assume(!ran[pick]);
        ran[pick] = true;
        verif_spawned[pick](ptd::thread_restart_state::signaled);
    }
    verif_assert(calls == shape_n, "f is invoked exactly once for every index in [0,n) (n calls, none repeated, none out of range)");
    verif_assert(out_of_range == 0, "f is invoked for no index outside [0,n)");
    verif_assert(wrong_value == 0, "the predecessor's value is passed unchanged to every call");
    verif_assert(n_set_value == 1 && n_set_error == 0 && n_set_stopped == 0, "the receiver is signalled exactly once (value)");
    verif_assert(done_value == 42, "the values are forwarded");
    verif_assert(calls_after_done == 0, "the receiver is signalled after the last call returned");
    verif_cover(0);
}

// ---- concurrent variant (mode=res): the two spawned worker tasks run as two harness threads under every schedule ------
#ifdef CONC
static void (*conc_go[2])() = {nullptr, nullptr};
extern "C" void brc_init()
{
    verif_pool_workers = 2;
    verif_local_worker = verif_nondet_range(0, 1);
    shape_n = (int) verif_nondet_range(0, NMAX);
    verif_pool* pool = new verif_pool();
    ex::thread_pool_scheduler sched(pool);
    using just_t = decltype(ex::just(42));
    pika::thread_pool_bulk_detail::thread_pool_bulk_sender<just_t, int, body_f> snd{std::move(sched), ex::just(42), (int) shape_n, body_f{}};
    auto* op = new auto(ex::connect(std::move(snd), recv{}));
    ex::start(*op);
}
extern "C" void brc_thread_0()
{
    if (verif_nspawned > 0) verif_spawned[0](ptd::thread_restart_state::signaled);
}
extern "C" void brc_thread_1()
{
    if (verif_nspawned > 1) verif_spawned[1](ptd::thread_restart_state::signaled);
}
extern "C" void brc_final()
{
    verif_assert(calls == shape_n, "f is invoked exactly once for every index in [0,n) (n calls, none repeated, none out of range)");
    verif_assert(out_of_range == 0, "f is invoked for no index outside [0,n)");
    verif_assert(n_set_value == 1 && n_set_error == 0 && n_set_stopped == 0, "the receiver is signalled exactly once (value)");
    verif_assert(calls_after_done == 0, "the receiver is signalled after the last call returned");
    verif_cover(0);
}
#endif
