// Contract-level pika::detail::spinlock (the low-level test-and-test-and-set lock of thread_support), used in the
// kernels where it only guards internal state of the code under test (thread_data's pooled lock, ...).
// Same assume-guarantee layering as shim_sync/pika/concurrency/spinlock.hpp; the real class is verified in the
// C06 query spinlock_lowlevel_*.
#pragma once
#include <pika/config.hpp>
#include "verif.h"
#include <cstdint>

namespace pika::detail {
    struct spinlock
    {
        PIKA_NON_COPYABLE(spinlock);
        std::uint32_t free_ = 1;
        constexpr spinlock() noexcept {}
        bool try_lock() noexcept
        {
            verif_yield();
            if (!free_) return false;
            free_ = 0;
            return true;
        }
        void lock() noexcept
        {
            verif_block_until(&free_);
            free_ = 0;
        }
        void unlock() noexcept
        {
            verif_assert(!free_, "spinlock contract: unlock of a lock that is not held");
            free_ = 1;
        }
        void yield_k(unsigned) noexcept {}
    };
}    // namespace pika::detail
