// Environment for the synchronisation-layer kernels (DESIGN §4.2 "Agent" and "Layering").
//
// Real code pulled in here: execution_base/src/agent_ref.cpp (the agent_ref front end with its
// PIKA_ASSERTs) and errors/src/error_code.cpp (error_code semantics).  Stubbed: the agent itself
// (a legitimate implementation of the public agent_base interface on top of the verif blocking
// primitives), task identity, and the throwing back end of the errors module (error paths end after
// the check that guards them; the error code is recorded and, in `throws` mode, an exception of type
// verif_pika_error is raised without any formatting).
#pragma once
#include "env_pre.hpp"
#include <pika/execution_base/agent_base.hpp>
#include <pika/execution_base/agent_ref.hpp>
#include <pika/execution_base/context_base.hpp>
#include <pika/execution_base/this_thread.hpp>
#include <pika/modules/errors.hpp>
#include <pika/threading_base/thread_data.hpp>

#include </repo/libs/pika/execution_base/src/agent_ref.cpp>

#include "env_errors.hpp"

#ifndef VERIF_MAX_SLOTS
#define VERIF_MAX_SLOTS 4
#endif

// ---- identity -----------------------------------------------------------------------------------
// slot kinds: 1 = pika task (non-null thread id, distinct per slot), 0 = plain OS thread
static unsigned char verif_slot_is_task[VERIF_MAX_SLOTS] = {1, 1, 1, 1};
static long verif_slot_identity[VERIF_MAX_SLOTS];
static int verif_deadline_passed[VERIF_MAX_SLOTS];
static int verif_identity_as = -1;    // sequential scenarios: act with the identity of another slot
static int verif_ident() { return verif_identity_as >= 0 ? verif_identity_as : verif_tid(); }


namespace pika::threads::detail {
    thread_id_type get_self_id()
    {
        int t = verif_ident();
        if (!verif_slot_is_task[t]) return invalid_thread_id;
        return thread_id_type(static_cast<void*>(&verif_slot_identity[t]));
    }
    thread_self* get_self_ptr()
    {
        int t = verif_ident();
        return verif_slot_is_task[t] ? reinterpret_cast<thread_self*>(&verif_slot_identity[t]) : nullptr;
    }
}    // namespace pika::threads::detail

// ---- agent ------------------------------------------------------------------------------------------
struct verif_context final : pika::execution::detail::context_base
{
    pika::execution::detail::resource_base const& resource() const override { return res_; }
    pika::execution::detail::resource_base res_;
};

static verif_context verif_the_context;

struct verif_agent final : pika::execution::detail::agent_base
{
    std::uint32_t token = 0;    // wake-up token deposited by resume()

    std::string description() const override { return std::string(); }
    pika::execution::detail::context_base const& context() const override { return verif_the_context; }
    void yield(char const*) override { verif_spin(); }
    void yield_k(std::size_t, char const*) override { verif_spin(); }
    void spin_k(std::size_t, char const*) override { verif_spin(); }
    void suspend(char const*) override
    {
        verif_block_until(&token);
        token = 0;
    }
    void resume(char const*) override { token = 1; }
    void abort(char const*) override { token = 1; }
    void sleep_for(pika::chrono::steady_duration const&, char const*) override { sleep_common(); }
    void sleep_until(pika::chrono::steady_time_point const&, char const*) override { sleep_common(); }
    // timed suspension: returns when resumed or, nondeterministically, because the deadline passed
    // (time is a symbolic, monotone environment: once a deadline has passed it stays passed)
    void sleep_common()
    {
        for (;;)
        {
            if (token)
            {
                token = 0;
                return;
            }
            int slot = verif_tid();
            if (verif_deadline_passed[slot] || verif_nondet_range(0, 1))
            {
                verif_deadline_passed[slot] = 1;
                return;
            }
            verif_spin_timed();
        }
    }
};

static verif_agent verif_agents[VERIF_MAX_SLOTS];

namespace pika::execution::this_thread::detail {
    pika::execution::detail::agent_ref agent()
    {
        return pika::execution::detail::agent_ref(&verif_agents[verif_tid()]);
    }
    void yield(char const* desc) { agent().yield(desc); }
    void yield_k(std::size_t k, char const* desc) { agent().yield_k(k, desc); }
    void spin_k(std::size_t k, char const* desc) { agent().spin_k(k, desc); }
    void suspend(char const* desc) { agent().suspend(desc); }
}    // namespace pika::execution::this_thread::detail

