#!/bin/sh
# lower.sh <kernel.cpp> <out.ll> [extra clang flags]: real pika sources -> LLVM IR
# VERIF_NOINLINE="<regex> <regex> ..." (on mangled names): those functions are kept out of line (two-stage lowering: clang front end,
# 'noinline' added to the matching definitions, then the same -O1 pipeline through opt) so that ll2c -cut can replace them.
set -e
K="$1"; O="$2"; shift 2
INC=""
for d in /repo/libs/pika/*/include; do INC="$INC -I$d"; done
CFG=/repo/_build; [ -d /repo/_build/libs/pika/config/include ] || CFG=/verif/.cfg
for d in $CFG/libs/pika/*/include; do INC="$INC -I$d"; done
FLAGS="-std=c++20 -O1 -fno-vectorize -fno-slp-vectorize -fno-unroll-loops -fsanitize=unreachable -fsanitize-trap=unreachable -Wno-everything \
  ${VERIF_SHIM:+-I$VERIF_SHIM} -I/verif/shim -I/verif/rt -I/verif/kernels $INC -I$CFG -DPIKA_DEBUG"
if [ -z "$VERIF_NOINLINE" ]; then
  exec clang++-14 $FLAGS -mllvm -inline-threshold=${VERIF_INLINE:-225} "$@" -S -emit-llvm "$K" -o "$O"
fi
clang++-14 $FLAGS -Xclang -disable-llvm-passes "$@" -S -emit-llvm "$K" -o "$O.pre.ll"
for rx in $VERIF_NOINLINE; do
  sed -i -E "s/^(define [^@]*@\"?($rx)\"?\(.*\) [^#]*)(#[0-9]+)/\1noinline \3/" "$O.pre.ll"
done
# no match (the function was renamed or is gone): nothing to keep out of line - the cut then has no effect and the query just costs more
if ! grep -q "^define.* noinline #" "$O.pre.ll"; then echo "lower.sh: warning: VERIF_NOINLINE matched no definition" >&2; fi
opt-14 -passes='default<O1>' -inline-threshold=${VERIF_INLINE:-225} -S "$O.pre.ll" -o "$O"
rm -f "$O.pre.ll"
