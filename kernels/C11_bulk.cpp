// C11 — thread_pool_scheduler bulk: chunk arithmetic at the full width of the Shape type.
// Real code executed: bulk_receiver::get_chunk_size, bulk_receiver::init_queue,
// set_value_loop_visitor::do_work_chunk, contiguous_index_queue.  The operation state is materialised
// field-by-field (all members are public) instead of through its constructor, so no thread pool is needed;
// the three lines of set_value that combine these functions are repeated here verbatim (arith_main).
#include "env_pre.hpp"
#include <pika/execution/algorithms/just.hpp>
#include <pika/executors/thread_pool_scheduler_bulk.hpp>
#include "env.hpp"
#include <new>

namespace ex = pika::execution::experimental;

#ifndef SHAPE
#define SHAPE std::uint32_t
#endif
using shape_t = SHAPE;

struct rec_f
{
    void operator()(shape_t) const {}
};
struct recv
{
    PIKA_STDEXEC_RECEIVER_CONCEPT
    friend void tag_invoke(ex::set_value_t, recv&&) noexcept {}
    friend void tag_invoke(ex::set_error_t, recv&&, std::exception_ptr) noexcept {}
    friend void tag_invoke(ex::set_stopped_t, recv&&) noexcept {}
    friend constexpr ex::empty_env tag_invoke(ex::get_env_t, recv const&) noexcept { return {}; }
};
using just_t = decltype(ex::just());
using op_t = pika::thread_pool_bulk_detail::operation_state<just_t, shape_t, rec_f, recv>;
using brecv_t = op_t::bulk_receiver;

extern "C" void chunk_main()
{
    // get_chunk_size: terminates (unwinding assertion, 34 iterations), never 0, power of two, and yields a
    // chunk count that fits the 32-bit index queue
    std::uint32_t W = verif_nondet_range(1, 64);
    shape_t n;
    if (sizeof(shape_t) > 4) n = (shape_t) verif_nondet_u64();
    else
        n = (shape_t) verif_nondet_u32();
    verif_assume(n > 0);
    if (verif_param(1)) verif_assume((std::uint64_t) n <= 0x80000000ull);    // region free of the known 32-bit truncation finding
    std::uint32_t cs = brecv_t::get_chunk_size(W, n);
    verif_assert(cs >= 1, "chunk size is at least 1");
    verif_assert((cs & (cs - 1)) == 0, "chunk size is a power of two");
    auto const num_chunks = (n + cs - 1) / cs;    // as in set_value
    verif_assert(num_chunks >= 1, "at least one chunk for a non-empty shape");
    verif_assert((std::uint64_t) num_chunks <= 0xffffffffull, "number of chunks fits the 32-bit index queue");
    verif_assert((std::uint64_t) num_chunks * cs >= (std::uint64_t) n, "chunks cover the whole shape");
    verif_assert(((std::uint64_t) num_chunks - 1) * cs < (std::uint64_t) n, "no chunk is empty");
    verif_cover(0);
}

// per-worker ranges computed by the real init_queue tile [0, num_chunks) exactly
extern "C" void tile_main()
{
    std::uint32_t W = (std::uint32_t) verif_param(0);    // worker count: one query per value (division by a constant)
    // num_chunks as set_value computes it, for every shape in the region where get_chunk_size is sound
    shape_t n;
    if (sizeof(shape_t) > 4) n = (shape_t) verif_nondet_u64();
    else
        n = (shape_t) verif_nondet_u32();
    verif_assume(n > 0 && (std::uint64_t) n <= 0x80000000ull);
    std::uint32_t cs = brecv_t::get_chunk_size(W, n);
    std::uint32_t num_chunks = (std::uint32_t) ((n + cs - 1) / cs);
    op_t* op = static_cast<op_t*>(::operator new(sizeof(op_t)));
    op->num_worker_threads = W;
    new (&op->queues) decltype(op->queues)(W);
    brecv_t r{op};
    for (std::uint32_t w = 0; w < W; ++w) r.init_queue(w, num_chunks);
    std::uint64_t expect = 0;
    for (std::uint32_t w = 0; w < W; ++w)
    {
        auto& q = op->queues[w].data_;
        std::uint32_t cnt = 0;
        auto first = q.pop_left();
        if (first)
        {
            verif_assert(*first == expect, "worker ranges are contiguous and start where the previous one ended");
            auto last = q.pop_right();
            cnt = last ? (*last - *first + 1) : 1;
        }
        expect += cnt;
    }
    verif_assert(expect == num_chunks, "worker ranges tile [0, num_chunks) exactly");
    verif_cover(0);
}
