/* Runtime for ll2c-generated C: scheduler (own sequentialisation), environment models for the
   C++ runtime (exceptions, new/delete, libatomic, a few libc calls), oracle plumbing.
   Included at the end of every generated file; compiled by CBMC (symbolic) and by gcc (concrete
   runs for translator validation, with nondeterminism from a seed or a replay file). */
#include "verif_gen.h"

int verif_cur;
unsigned verif_budget;
int verif_changed;
int verif_mode;
int verif_last[VERIF_NSLOT];
u32* verif_blocked_on[VERIF_NSLOT];
int verif_done[VERIF_NSLOT];
int verif_cover_hit[16];
struct verif_exc_state verif_exc[VERIF_NSLOT];
u64 verif_nd_log[VERIF_NDMAX];
int verif_nd_cnt;
u8 verif_budget_log[VERIF_R][VERIF_NSLOT];
int verif_live_allocs;

void verif_glue_ctors(void);
void verif_glue_init(void);
void verif_glue_final(void);
void verif_glue_main(void);
void verif_glue_stuck(void);
extern const int verif_glue_has_stuck;
int verif_glue_thread_step(int t);
extern const int verif_glue_nthreads;

#ifdef __CPROVER__
u64 nondet_u64(void);
u32 nondet_u32(void);
u8 nondet_u8(void);
static u64 verif_src_next(void) { return nondet_u64(); }
static unsigned verif_src_budget(int r, int t)
{
    u8 b = nondet_u8();
    __CPROVER_assume(b <= VERIF_BMAX);
    return b;
}
#define VERIF_CONCRETE 0
#else
#include <stdio.h>
#include <stdlib.h>
#include <string.h>
#define VERIF_CONCRETE 1
#include "rt_concrete.h"
#endif

/* runtime-internal obligations (double delete, model capacity ...): not part of the event hash, since
   the native replay runtime has no counterpart for them */
#if VERIF_CONCRETE
#define VERIF_RT_ASSERT(c, msg)                                                                                                                      \
    do {                                                                                                                                             \
        if (!(c)) verif_concrete_finish("FAIL", msg);                                                                                                \
    } while (0)
#else
#define VERIF_RT_ASSERT(c, msg) __CPROVER_assert((c), msg)
#endif
static u64 verif_draw(void)
{
    u64 v = verif_src_next();
    if (verif_nd_cnt < VERIF_NDMAX) verif_nd_log[verif_nd_cnt] = v;
    verif_nd_cnt++;
    verif_changed = 1;
    return v;
}
u32 verif_nondet_u32(void)
{
    u32 v = (u32) verif_draw();
#if VERIF_CONCRETE
    verif_event('n', v);
#endif
    return v;
}
u64 verif_nondet_u64(void)
{
    u64 v = verif_draw();
#if VERIF_CONCRETE
    verif_event('n', v);
#endif
    return v;
}
u32 verif_nondet_range(u32 lo, u32 hi)
{
    u64 raw = verif_draw();
    u32 v;
#if VERIF_CONCRETE
    v = (raw >= lo && raw <= hi) ? (u32) raw : lo + (u32) (raw % ((u64) hi - lo + 1));
    verif_nd_log[(verif_nd_cnt - 1) < VERIF_NDMAX ? verif_nd_cnt - 1 : 0] = v;
    verif_event('n', v);
#else
    v = (u32) raw;
    __CPROVER_assume(raw >= lo && raw <= hi);
#endif
    return v;
}
int verif_tid(void) { return verif_cur; }
void verif_cover(int id)
{
    if (id >= 0 && id < 16) verif_cover_hit[id] = 1;
}
void verif_observe(u64 v)
{
#if VERIF_CONCRETE
    verif_event('o', v);
#else
    (void) v;
#endif
}
int verif_param(int i)
{
#ifdef VERIF_P0
    if (i == 0) return VERIF_P0;
#endif
#ifdef VERIF_P1
    if (i == 1) return VERIF_P1;
#endif
#ifdef VERIF_P2
    if (i == 2) return VERIF_P2;
#endif
#ifdef VERIF_P3
    if (i == 3) return VERIF_P3;
#endif
    return 0;
}

void* memmove(void*, const void*, size_t);
void* memset(void*, int, size_t);
static void verif_move(void* d, void* s, u64 n)
{
    if (n == 8) *(u64*) d = *(u64*) s;
    else if (n == 4) *(u32*) d = *(u32*) s;
    else if (n == 16)
    {
        u64 a = ((u64*) s)[0], b = ((u64*) s)[1]; /* not necessarily 16-byte aligned */
        ((u64*) d)[0] = a;
        ((u64*) d)[1] = b;
    }
    else if (n == 2) *(u16*) d = *(u16*) s;
    else if (n == 1) *(u8*) d = *(u8*) s;
    else memmove(d, s, n);
}
/* ---- memory ------------------------------------------------------------------------------- */
void verif_memcpy(void* d, void* s, u64 n) { verif_move(d, s, n); }
void verif_memset(void* d, u8 v, u64 n) { memset(d, v, n); }
void* malloc(size_t);
void free(void*);
#define VERIF_FREED_MAX 16
static void* verif_freed[VERIF_FREED_MAX + 64]; /* > 64 elements: one array symbol for CBMC */
static int verif_nfreed;
static void* verif_alloc(u64 n)
{
    void* p = malloc(n ? n : 1);
    VERIF_ASSUME(p != 0);
    verif_live_allocs++;
    return p;
}
static void verif_dealloc(void* p)
{
    if (!p) return;
#ifdef __CPROVER__
    /* double delete: the solver chooses one freed address to watch; any later free of it is a violation
       (one comparison per free instead of a list scan; freed memory is never handed out again) */
    static void* verif_watched;
    _Bool nondet_bool(void);
    VERIF_RT_ASSERT(p != verif_watched, "double free / double delete");
    if (nondet_bool()) verif_watched = p;
#else
    for (int i = 0; i < VERIF_FREED_MAX; i++)
        if (i < verif_nfreed) VERIF_RT_ASSERT(verif_freed[i] != p, "double free / double delete");
    if (verif_nfreed < VERIF_FREED_MAX) verif_freed[verif_nfreed] = p;
    verif_nfreed++;
#endif
    verif_live_allocs--;
}
void* verif_rt__Znwm(u64 n) { return verif_alloc(n); }
void* verif_rt__Znam(u64 n) { return verif_alloc(n); }
void* verif_rt__ZnwmSt11align_val_t(u64 n, u64 a) { return verif_alloc(n); }
void* verif_rt__ZnamSt11align_val_t(u64 n, u64 a) { return verif_alloc(n); }
void verif_rt__ZdaPvSt11align_val_t(void* p, u64 a) { verif_dealloc(p); }
void verif_rt__ZdlPv(void* p) { verif_dealloc(p); }
void verif_rt__ZdaPv(void* p) { verif_dealloc(p); }
void verif_rt__ZdlPvm(void* p, u64 n) { verif_dealloc(p); }
void verif_rt__ZdlPvSt11align_val_t(void* p, u64 a) { verif_dealloc(p); }
void verif_rt__ZdlPvmSt11align_val_t(void* p, u64 n, u64 a) { verif_dealloc(p); }
void* verif_rt_malloc(u64 n) { return verif_alloc(n); }
void verif_rt_free(void* p) { verif_dealloc(p); }
void* verif_rt_memcpy(void* d, void* s, u64 n)
{
    verif_move(d, s, n);
    return d;
}
void* verif_rt_memmove(void* d, void* s, u64 n)
{
    verif_move(d, s, n);
    return d;
}
void* verif_rt_memset(void* d, u32 v, u64 n)
{
    memset(d, (int) v, n);
    return d;
}
u64 verif_rt_strlen(void* s)
{
    u64 n = 0;
    while (((char*) s)[n]) n++;
    return n;
}
u32 verif_rt_memcmp(void* a, void* b, u64 n)
{
    for (u64 i = 0; i < n; i++)
        if (((u8*) a)[i] != ((u8*) b)[i]) return ((u8*) a)[i] < ((u8*) b)[i] ? (u32) -1 : 1;
    return 0;
}
u32 verif_rt_strcmp(void* a, void* b)
{
    u64 i = 0;
    while (((u8*) a)[i] && ((u8*) a)[i] == ((u8*) b)[i]) i++;
    return ((u8*) a)[i] == ((u8*) b)[i] ? 0 : (((u8*) a)[i] < ((u8*) b)[i] ? (u32) -1 : 1);
}
u32 verif_rt_bcmp(void* a, void* b, u64 n) { return verif_rt_memcmp(a, b, n); }
void verif_rt_abort(void)
{
    VERIF_RT_ASSERT(0, "abort() called");
    VERIF_ASSUME(0);
}
void verif_rt__ZSt9terminatev(void)
{
    VERIF_RT_ASSERT(0, "std::terminate called");
    VERIF_ASSUME(0);
}
void verif_rt___cxa_pure_virtual(void)
{
    VERIF_RT_ASSERT(0, "pure virtual call");
    VERIF_ASSUME(0);
}
u32 verif_rt___cxa_guard_acquire(void* g) { return *(u8*) g == 0; }
void verif_rt___cxa_guard_release(void* g) { *(u8*) g = 1; }
void verif_rt___cxa_guard_abort(void* g) {}
u32 verif_rt___cxa_atexit(void* f, void* a, void* d) { return 0; }
void verif_rt__ZSt20__throw_length_errorPKc(void* m)
{
    VERIF_RT_ASSERT(0, "std::__throw_length_error");
    VERIF_ASSUME(0);
}
void verif_rt__ZSt17__throw_bad_allocv(void)
{
    VERIF_RT_ASSERT(0, "std::__throw_bad_alloc");
    VERIF_ASSUME(0);
}
void verif_rt__ZSt28__throw_bad_array_new_lengthv(void)
{
    VERIF_RT_ASSERT(0, "std::__throw_bad_array_new_length");
    VERIF_ASSUME(0);
}
void verif_rt__ZSt19__throw_logic_errorPKc(void* m)
{
    VERIF_RT_ASSERT(0, "std::__throw_logic_error");
    VERIF_ASSUME(0);
}
void verif_rt__ZSt24__throw_out_of_range_fmtPKcz(void* m, ...)
{
    VERIF_RT_ASSERT(0, "std::__throw_out_of_range_fmt");
    VERIF_ASSUME(0);
}
void verif_rt__ZSt25__throw_bad_function_callv(void)
{
    VERIF_RT_ASSERT(0, "std::__throw_bad_function_call");
    VERIF_ASSUME(0);
}
void verif_rt__ZSt20__throw_system_errori(u32 e)
{
    VERIF_RT_ASSERT(0, "std::__throw_system_error");
    VERIF_ASSUME(0);
}

/* ---- exceptions (Itanium ABI surface, single in-flight exception per thread slot) ---------- */
#define VERIF_EXC_MAX 4
static void* verif_exc_objs[VERIF_EXC_MAX];
static void* verif_exc_types[VERIF_EXC_MAX];
static int verif_exc_n;
static void* verif_caught[VERIF_NSLOT][4];
static int verif_ncaught[VERIF_NSLOT];
void* verif_rt___cxa_allocate_exception(u64 n) { return verif_alloc(n); }
void verif_rt___cxa_free_exception(void* p) { verif_live_allocs--; }
static void* verif_exc_type_of(void* o)
{
    /* unrolled (VERIF_EXC_MAX == 4): an unknown or null object must not depend on the query's unwind bound */
    if (0 < verif_exc_n && verif_exc_objs[0] == o) return verif_exc_types[0];
    if (1 < verif_exc_n && verif_exc_objs[1] == o) return verif_exc_types[1];
    if (2 < verif_exc_n && verif_exc_objs[2] == o) return verif_exc_types[2];
    if (3 < verif_exc_n && verif_exc_objs[3] == o) return verif_exc_types[3];
    return 0;
}
void verif_rt___cxa_throw(void* o, void* ti, void* dtor)
{
    VERIF_RT_ASSERT(verif_exc_n < VERIF_EXC_MAX, "exception model: too many exceptions thrown");
    if (verif_exc_n < VERIF_EXC_MAX)
    {
        verif_exc_objs[verif_exc_n] = o;
        verif_exc_types[verif_exc_n] = ti;
        verif_exc_n++;
    }
    verif_live_allocs--; /* exception objects are not part of the leak ledger */
    VERIF_EXC_OBJ = o;
    VERIF_EXC_TYPE = ti;
    VERIF_EXC_PENDING = 1;
}
void* verif_rt___cxa_init_primary_exception(void* o, void* ti, void* dtor)
{
    /* std::make_exception_ptr (libstdc++ >= 12): the exception object is created without being thrown */
    VERIF_RT_ASSERT(verif_exc_n < VERIF_EXC_MAX, "exception model: too many exceptions created");
    if (verif_exc_n < VERIF_EXC_MAX)
    {
        verif_exc_objs[verif_exc_n] = o;
        verif_exc_types[verif_exc_n] = ti;
        verif_exc_n++;
    }
    verif_live_allocs--;
    return o;
}
void verif_rt__ZNSt15__exception_ptr13exception_ptrC1EPv(void* self, void* o) { *(void**) self = o; }
void verif_rt__ZNSt9exceptionD2Ev(void* self) {}
void* verif_rt___cxa_begin_catch(void* o)
{
    int n = verif_ncaught[verif_cur];
    VERIF_RT_ASSERT(n < 4, "exception model: catch nesting too deep");
    if (n < 4) verif_caught[verif_cur][n] = o;
    verif_ncaught[verif_cur] = n + 1;
    return o;
}
void verif_rt___cxa_end_catch(void)
{
    if (verif_ncaught[verif_cur] > 0) verif_ncaught[verif_cur]--;
}
void verif_rt___cxa_rethrow(void)
{
    int n = verif_ncaught[verif_cur];
    void* o = n > 0 && n <= 4 ? verif_caught[verif_cur][n - 1] : 0;
    VERIF_EXC_OBJ = o;
    VERIF_EXC_TYPE = verif_exc_type_of(o);
    VERIF_EXC_PENDING = 1;
}
void verif_rt__ZSt17current_exceptionv(void* out)
{
    int n = verif_ncaught[verif_cur];
    *(void**) out = n > 0 && n <= 4 ? verif_caught[verif_cur][n - 1] : 0;
}
void verif_rt__ZSt17rethrow_exceptionNSt15__exception_ptr13exception_ptrE(void* p)
{
    void* o = *(void**) p;
    VERIF_RT_ASSERT(o != 0, "std::rethrow_exception on a null exception_ptr: the error signal carries no exception");
    VERIF_EXC_OBJ = o;
    VERIF_EXC_TYPE = verif_exc_type_of(o);
    VERIF_EXC_PENDING = 1;
}
void verif_rt__ZNSt15__exception_ptr13exception_ptr9_M_addrefEv(void* p) {}
void verif_rt__ZNSt15__exception_ptr13exception_ptr10_M_releaseEv(void* p) {}
/* OS thread identity (std::this_thread::get_id): one distinct non-zero id per harness thread slot */
u64 verif_rt_pthread_self(void) { return (u64) verif_cur + 1; }
u32 verif_rt__ZSt18uncaught_exceptionv(void) { return 0; }
u32 verif_rt__ZSt19uncaught_exceptionsv(void) { return 0; }

/* ---- libatomic (generic, size in bytes) ---------------------------------------------------- */
static int verif_bytes_differ(void* a, void* b, u64 n)
{
    if (n == 8) return *(u64*) a != *(u64*) b;
    if (n == 4) return *(u32*) a != *(u32*) b;
    if (n == 16) return ((u64*) a)[0] != ((u64*) b)[0] || ((u64*) a)[1] != ((u64*) b)[1];
    if (n == 2) return *(u16*) a != *(u16*) b;
    if (n == 1) return *(u8*) a != *(u8*) b;
    for (u64 i = 0; i < n; i++)
        if (((u8*) a)[i] != ((u8*) b)[i]) return 1;
    return 0;
}
void verif_rt___atomic_load(u64 n, void* src, void* dst, u32 mo) { verif_move(dst, src, n); }
void verif_rt___atomic_store(u64 n, void* dst, void* src, u32 mo)
{
    if (verif_bytes_differ(dst, src, n)) verif_changed = 1;
    verif_move(dst, src, n);
}
void verif_rt___atomic_exchange(u64 n, void* p, void* val, void* ret, u32 mo)
{
    verif_move(ret, p, n);
    if (verif_bytes_differ(p, val, n)) verif_changed = 1;
    verif_move(p, val, n);
}
u1 verif_rt___atomic_compare_exchange(u64 n, void* p, void* expected, void* desired, u32 s, u32 f)
{
    if (!verif_bytes_differ(p, expected, n))
    {
        if (verif_bytes_differ(p, desired, n)) verif_changed = 1;
        verif_move(p, desired, n);
        return 1;
    }
    verif_move(expected, p, n);
    return 0;
}
u128 verif_rt___atomic_load_16(void* p, u32 mo) { return *(u128*) p; }
void verif_rt___atomic_store_16(void* p, u128 v, u32 mo)
{
    if (*(u128*) p != v) verif_changed = 1;
    *(u128*) p = v;
}
u1 verif_rt___atomic_compare_exchange_16(void* p, void* e, u128 d, u1 weak, u32 s, u32 f)
{
    if (*(u128*) p == *(u128*) e)
    {
        if (*(u128*) p != d) verif_changed = 1;
        *(u128*) p = d;
        return 1;
    }
    *(u128*) e = *(u128*) p;
    return 0;
}
double verif_fabs(double x) { return x < 0 ? -x : x; }
double verif_floor(double x)
{
    s64 i = (s64) x;
    return (double) (i > x ? i - 1 : i);
}
double verif_ceil(double x)
{
    s64 i = (s64) x;
    return (double) (i < x ? i + 1 : i);
}
double verif_round(double x) { return x < 0 ? -verif_floor(-x + 0.5) : verif_floor(x + 0.5); }
double verif_rt_round(double x) { return verif_round(x); }

/* ---- scheduler ----------------------------------------------------------------------------- */
int main(int argc, char** argv)
{
#if VERIF_CONCRETE
    verif_concrete_setup(argc, argv);
#endif
    verif_cur = VERIF_NT;
    verif_budget = 0x7fffffff;
    verif_glue_ctors();
    if (verif_glue_nthreads == 0)
    {
        verif_glue_main();
#ifdef VERIF_WITNESS
        VERIF_ASSERT(0, "witness: end of scenario reached");
#endif
#ifdef VERIF_COVER
        VERIF_ASSERT(!verif_cover_hit[VERIF_COVER], "cover point reached");
#endif
#if VERIF_CONCRETE
        verif_concrete_finish("PASS", "");
#endif
        return 0;
    }
    verif_glue_init();
    int exhausted = 0;
    for (int r = 0; r < VERIF_R; r++)
    {
        verif_changed = 0;
        exhausted = 0;
        for (int t = 0; t < VERIF_NT; t++)
        {
            verif_cur = t;
            if (!verif_done[t])
            {
                unsigned b = (r == VERIF_R - 1) ? VERIF_BMAX : verif_src_budget(r, t);
                verif_budget_log[r][t] = (u8) b;
                verif_budget = b;
                if (!verif_glue_thread_step(t))
                {
                    verif_done[t] = 1;
                    verif_changed = 1;
                }
                else if (verif_last[t] == 0)
                    exhausted = 1;
            }
        }
    }
    int alld = 1, stuck = 1;
    for (int t = 0; t < VERIF_NT; t++)
    {
        if (verif_done[t]) continue;
        alld = 0;
        if (verif_last[t] == 1 && *verif_blocked_on[t] == 0) continue; /* blocked, condition still false */
        if (verif_last[t] == 2) continue;                               /* spinning (untimed)             */
        stuck = 0;
    }
    if (verif_changed || exhausted) stuck = 0;
    if (!alld && stuck && verif_glue_has_stuck)
    {
        /* scenario-specific judgement of a quiescent-but-unfinished state (e.g. an acquirer may stay blocked
           legitimately when no permit is left) */
        verif_cur = VERIF_NT;
        verif_budget = 0x7fffffff;
        verif_glue_stuck();
        stuck = 0;
    }
    VERIF_ASSERT(alld || !stuck, "stuck: unfinished threads are blocked/spinning and a full round changed nothing (deadlock or lost wake-up)");
#if VERIF_CONCRETE
    if (!alld) verif_concrete_finish(stuck ? "FAIL" : "OUT-OF-ROUNDS", stuck ? "stuck" : "");
#endif
    VERIF_ASSUME(alld);
    verif_cur = VERIF_NT;
    verif_budget = 0x7fffffff;
    verif_glue_final();
#ifdef VERIF_WITNESS
    VERIF_ASSERT(0, "witness: end of scenario reached");
#endif
#ifdef VERIF_COVER
    VERIF_ASSERT(!verif_cover_hit[VERIF_COVER], "cover point reached");
#endif
#if VERIF_CONCRETE
    verif_concrete_finish("PASS", "");
#endif
    return 0;
}
