// C14 — stop_token: real stop_token.cpp + stop_token.hpp.
//   hist_ : sequential histories of stop_source / stop_token special members against a reference count model
//   cc_   : racing request_stop callers + a stop_callback constructed/destroyed concurrently
#include "env_pre.hpp"
#include </repo/libs/pika/synchronization/src/stop_token.cpp>
#include "env_sync.hpp"
#include <new>

using pika::stop_source;
using pika::stop_token;

// ================================= histories (sequential) =============================================
#ifndef HIST_K
#define HIST_K 5
#endif
#define NSRC 3
#define NTOK 2
#define NSTATE 3

static stop_source* src_p[NSRC];    // typed heap objects (so that CBMC keeps field sensitivity)
static stop_token* tok_p[NTOK];
// reference model: -1 = slot holds no object, 0 = object without state, s>0 = object on state s
static int src_st[NSRC] = {-1, -1, -1}, tok_st[NTOK] = {-1, -1};
static int live_sources[NSTATE + 1], stopped[NSTATE + 1], nstates;

static stop_source& S(unsigned i) { return *src_p[i]; }
static stop_token& T(unsigned i) { return *tok_p[i]; }

static void check_all()
{
    for (unsigned i = 0; i < NSRC; ++i)
        if (src_st[i] >= 0)
        {
            verif_assert(S(i).stop_possible() == (src_st[i] > 0), "stop_source::stop_possible == has a state");
            verif_assert(S(i).stop_requested() == (src_st[i] > 0 && stopped[src_st[i]]), "stop_source::stop_requested follows the state");
        }
    for (unsigned j = 0; j < NTOK; ++j)
        if (tok_st[j] >= 0)
        {
            int s = tok_st[j];
            verif_assert(T(j).stop_requested() == (s > 0 && stopped[s]), "stop_token::stop_requested follows the state");
            verif_assert(T(j).stop_possible() == (s > 0 && (stopped[s] || live_sources[s] > 0)),
                "stop_possible is true exactly while stop was requested or a stop_source for the state exists");
        }
}

extern "C" void hist_main()
{
    for (int step = 0; step < HIST_K; ++step)
    {
        unsigned op = verif_nondet_range(0, 9);
        unsigned i = verif_nondet_range(0, NSRC - 1), j = verif_nondet_range(0, NSRC - 1), k = verif_nondet_range(0, NTOK - 1);
        switch (op)
        {
        case 0:    // default-construct a source with a fresh state
            verif_assume(src_st[i] < 0 && nstates < NSTATE);
            src_p[i] = new stop_source();
            src_st[i] = ++nstates;
            live_sources[nstates] = 1;
            break;
        case 1:    // copy-construct i from j
            verif_assume(src_st[i] < 0 && src_st[j] >= 0 && i != j);
            src_p[i] = new stop_source(S(j));
            src_st[i] = src_st[j];
            if (src_st[i] > 0) ++live_sources[src_st[i]];
            break;
        case 2:    // move-construct i from j
            verif_assume(src_st[i] < 0 && src_st[j] >= 0 && i != j);
            src_p[i] = new stop_source(std::move(S(j)));
            src_st[i] = src_st[j];
            src_st[j] = 0;
            break;
        case 3:    // copy-assign i = j (self-assignment allowed)
            verif_assume(src_st[i] >= 0 && src_st[j] >= 0);
            S(i) = S(j);
            if (i != j)
            {
                if (src_st[i] > 0) --live_sources[src_st[i]];
                src_st[i] = src_st[j];
                if (src_st[i] > 0) ++live_sources[src_st[i]];
            }
            break;
        case 4:    // move-assign i = move(j), i != j
            verif_assume(src_st[i] >= 0 && src_st[j] >= 0 && i != j);
            S(i) = std::move(S(j));
            if (src_st[i] > 0) --live_sources[src_st[i]];
            src_st[i] = src_st[j];
            src_st[j] = 0;
            break;
        case 5:    // swap
            verif_assume(src_st[i] >= 0 && src_st[j] >= 0);
            S(i).swap(S(j));
            {
                int t = src_st[i];
                src_st[i] = src_st[j];
                src_st[j] = t;
            }
            break;
        case 6:    // destroy source
            verif_assume(src_st[i] >= 0);
            delete src_p[i];
            if (src_st[i] > 0) --live_sources[src_st[i]];
            src_st[i] = -1;
            break;
        case 7:    // get_token into token slot k
            verif_assume(src_st[i] >= 0 && tok_st[k] < 0);
            tok_p[k] = new stop_token(S(i).get_token());
            tok_st[k] = src_st[i];
            break;
        case 8:    // request_stop
            verif_assume(src_st[i] >= 0);
            {
                bool r = S(i).request_stop();
                int s = src_st[i];
                verif_assert(r == (s > 0 && !stopped[s]), "request_stop returns true exactly for the first request on a state");
                if (s > 0) stopped[s] = 1;
            }
            break;
        default:    // destroy token
            verif_assume(tok_st[k] >= 0);
            delete tok_p[k];
            tok_st[k] = -1;
            break;
        }
        check_all();
    }
    verif_cover(0);
}

// ================================= racing stoppers + callback ==========================================
static stop_source* src;
static int r_true, ran, cb_dead, in_cb, pre_stopped;

struct functor
{
    void operator()() const noexcept
    {
        verif_assert(!cb_dead, "a callback never starts after its stop_callback destructor has returned");
        in_cb = 1;
        ++ran;
        verif_yield();
        in_cb = 0;
    }
};

extern "C" void cc_init()
{
    src = new stop_source();
    // identities: each thread is either a pika task or a plain OS thread
    for (int t = 0; t < 3; ++t) verif_slot_is_task[t] = (unsigned char) verif_nondet_range(0, 1);
}
extern "C" void cc_thread_0()
{
    if (src->request_stop()) ++r_true;
}
extern "C" void cc_thread_1()
{
    if (src->request_stop()) ++r_true;
}
extern "C" void cc_thread_2()
{
    stop_token tok = src->get_token();
    bool pre = tok.stop_requested();
    {
        pika::stop_callback<functor> cb(tok, functor{});
        if (pre) verif_assert(ran == 1, "callback registered after the stop request runs immediately in the constructor");
    }
    verif_assert(!in_cb, "~stop_callback waits for its callback running on another thread");
    cb_dead = 1;
}
extern "C" void cc_final()
{
    verif_assert(r_true == 1, "exactly one of the racing request_stop calls returns true");
    verif_assert(src->stop_requested() && src->get_token().stop_requested(), "every token reports stop_requested afterwards");
    verif_assert(ran <= 1, "a callback runs at most once");
    verif_cover(0);
}

// ---- same race, callback kept alive until the end: it must have run exactly once -----------------------
static pika::stop_callback<functor>* kept;
extern "C" void cck_init() { cc_init(); }
extern "C" void cck_thread_0() { cc_thread_0(); }
extern "C" void cck_thread_1() { cc_thread_1(); }
extern "C" void cck_thread_2() { kept = new pika::stop_callback<functor>(src->get_token(), functor{}); }
extern "C" void cck_final()
{
    verif_assert(r_true == 1, "exactly one of the racing request_stop calls returns true");
    verif_assert(ran == 1, "a callback that stays registered runs exactly once when stop is requested");
    verif_cover(0);
}

// ---- two registrars: one registers and then requests stop, the other registers concurrently (its registration can find
//      the state locked by the first registration, and the whole request_stop can happen before it looks again) ---------------
struct functor3
{
    int id;
    void operator()() const noexcept;
};
static int ran3[2];
void functor3::operator()() const noexcept { ++ran3[id]; }
static pika::stop_callback<functor3>* kept3[2];
extern "C" void cc3_init()
{
    src = new stop_source();
    for (int t = 0; t < 2; ++t) verif_slot_is_task[t] = (unsigned char) verif_nondet_range(0, 1);
}
extern "C" void cc3_thread_0()
{
    kept3[0] = new pika::stop_callback<functor3>(src->get_token(), functor3{0});
    if (src->request_stop()) ++r_true;
}
extern "C" void cc3_thread_1() { kept3[1] = new pika::stop_callback<functor3>(src->get_token(), functor3{1}); }
extern "C" void cc3_final()
{
    verif_assert(r_true == 1, "the single request_stop call returns true");
    verif_assert(ran3[0] == 1, "the stopper's own callback runs exactly once");
    verif_assert(ran3[1] == 1, "a callback registered concurrently with the stop request runs exactly once (by request_stop or in its constructor)");
    verif_cover(0);
}

// ---- two callbacks; the one that is next in line is destroyed while request_stop runs the first ----------------
struct functor2;
static pika::stop_callback<functor2>* cb2[2];
static int ran2[2], dead2[2], mode2;
struct functor2
{
    int id;
    void operator()() const noexcept
    {
        verif_assert(!dead2[id], "a callback never starts after its stop_callback destructor has returned");
        ++ran2[id];
        if (mode2 == 1 && id == 1)
        {
            delete cb2[0];    // deregistration of another callback from inside a running callback
            dead2[0] = 1;
        }
        verif_yield();
    }
};
extern "C" void cc2_init()
{
    src = new stop_source();
    for (int t = 0; t < 2; ++t) verif_slot_is_task[t] = (unsigned char) verif_nondet_range(0, 1);
    mode2 = (int) verif_nondet_range(0, 1);
    cb2[0] = new pika::stop_callback<functor2>(src->get_token(), functor2{0});
    cb2[1] = new pika::stop_callback<functor2>(src->get_token(), functor2{1});    // head of the list: runs first
}
extern "C" void cc2_thread_0()
{
    if (src->request_stop()) ++r_true;
}
extern "C" void cc2_thread_1()
{
    if (mode2 == 0)
    {
        delete cb2[0];
        dead2[0] = 1;
    }
}
extern "C" void cc2_final()
{
    verif_assert(r_true == 1, "the single request_stop call returns true");
    verif_assert(ran2[1] == 1, "the callback that stays registered runs exactly once");
    verif_assert(ran2[0] <= 1, "a callback runs at most once");
    if (mode2 == 1) verif_assert(ran2[0] == 0, "a callback destroyed before its turn never runs");
    verif_cover(0);
}
