// C02 — no lost wake-up, on the real hand-off code: scheduling_loop<Policy> (real), switch_status (real),
// thread_data state word with tag (real), set_thread_state / set_active_state (real, including the helper
// task created for a still-active target through the real create_work), over a stub policy (env_sched.hpp)
// and the phase contract of a stackful task (shim_sched).
#include "env_sched.hpp"

static ptd::thread_result_type idle_fn(ptd::thread_restart_state) { return ptd::thread_result_type(ptd::thread_schedule_state::terminated, ptd::invalid_thread_id); }
static verif_sched* sched;
static ptd::thread_data* X;
static int x_registered, x_phases, x_in_body, resume_issued;
static ptd::thread_id_ref_type x_keepalive;    // this_thread::suspend keeps a reference to the suspending task on its own stack ("keep alive")

// task program: phase 0 registers as a waiter and asks to be suspended; phase 1 (after the wake-up) finishes
ptd::thread_result_type verif_task_phase(ptd::thread_data_stackful* t, ptd::thread_restart_state why)
{
    verif_assert(x_in_body == 0, "a task never executes on two workers at once");
    ++x_in_body;
    ptd::thread_result_type r(ptd::thread_schedule_state::terminated, ptd::invalid_thread_id);
    if (t->phase_ == 0)
    {
        x_keepalive = ptd::thread_id_ref_type(t);
        x_registered = 1;    // the waiter is registered (as under the primitive's internal lock)
        r.first = ptd::thread_schedule_state::suspended;
    }
    else
    {
        verif_assert(resume_issued, "the task only runs again after a wake-up was issued");
        x_keepalive.reset();
        verif_all_done = 1;
    }
    ++t->phase_;
    ++x_phases;
    --x_in_body;
    return r;
}

extern "C" void wk_init()
{
    sched = new verif_sched();
    ptd::thread_init_data d(&idle_fn, "X");
    ptd::thread_id_ref_type id;
    pika::error_code ec(pika::throwmode::lightweight);
    sched->create_thread(d, &id, ec);
    X = ptd::get_thread_id_data(id);
}
extern "C" void wk_thread_0() { verif_run_worker(*sched, 0); }
#if VERIF_NWORKERS > 1
extern "C" void wk_thread_1() { verif_run_worker(*sched, 1); }
#define WAKER wk_thread_2
#else
#define WAKER wk_thread_1
#endif
// the waker (a plain OS thread): issues the wake-up at any time after the waiter registered
extern "C" void WAKER()
{
    verif_block_until(reinterpret_cast<std::uint32_t*>(&x_registered));
    resume_issued = 1;
    pika::error_code ec(pika::throwmode::lightweight);
    ptd::set_thread_state(ptd::thread_id_type(X), ptd::thread_schedule_state::pending, ptd::thread_restart_state::signaled,
        pika::execution::thread_priority::normal, pika::execution::thread_schedule_hint(), true, ec);
}
extern "C" void wk_final()
{
    verif_assert(x_phases == 2, "the resumed task ran again (exactly two phases)");
    verif_cover(0);
}
