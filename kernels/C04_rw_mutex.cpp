// C04 — async_rw_mutex (real async_rw_mutex.hpp incl. shared_ptr release chain, op_state_head CAS list, done()).
// NACC accesses are requested in program order by init; their kinds (read / readwrite) are symbolic; each
// access is started by one of two threads, which then waits for the grant and releases the wrapper.
#include "env_pre.hpp"
#include <pika/execution/async_rw_mutex.hpp>
#include "env_sync.hpp"
#include <optional>

namespace ex = pika::execution::experimental;
using mutex_t = ex::async_rw_mutex<void>;
using r_wrap = mutex_t::read_access_type;
using w_wrap = mutex_t::readwrite_access_type;

#ifndef NACC
#define NACC 2
#endif

static mutex_t* mtx;
static int kind[NACC];                      // 0 read, 1 readwrite
static std::uint32_t granted[NACC];
static int grants[NACC], released[NACC], active[NACC];
static r_wrap* held_r[NACC];    // heap objects of their own type (a byte-storage optional costs CBMC a byte-level update per store)
static w_wrap* held_w[NACC];

static void on_grant(int i)
{
    ++grants[i];
    verif_assert(grants[i] == 1, "every access is granted exactly once");
    for (int j = 0; j < NACC; ++j)
    {
        if (j == i) continue;
        if (kind[i] == 1 || kind[j] == 1)
        {
            verif_assert(!active[j], "a read-write access never overlaps any other access; reads overlap only reads");
            if (j < i) verif_assert(released[j], "accesses are granted in request order (all earlier conflicting accesses released)");
        }
    }
    active[i] = 1;
    granted[i] = 1;
}
struct recv
{
    PIKA_STDEXEC_RECEIVER_CONCEPT
    int i;
    void set_value(r_wrap w) && noexcept
    {
        held_r[i] = new r_wrap(std::move(w));
        on_grant(i);
    }
    void set_value(w_wrap w) && noexcept
    {
        held_w[i] = new w_wrap(std::move(w));
        on_grant(i);
    }
    void set_error(std::exception_ptr) && noexcept { verif_assert(0, "access sender must not signal an error"); }
    void set_stopped() && noexcept { verif_assert(0, "access sender must not signal stopped"); }
    constexpr ex::empty_env get_env() const& noexcept { return {}; }
};
using r_sender = decltype(std::declval<mutex_t&>().read());
using w_sender = decltype(std::declval<mutex_t&>().readwrite());
using r_op = ex::connect_result_t<r_sender, recv>;
using w_op = ex::connect_result_t<w_sender, recv>;
static r_op* ops_r[NACC];
static w_op* ops_w[NACC];

// separate out-of-line makers: clang otherwise hoists the two equally sized operator new calls into one untyped allocation
__attribute__((noinline)) static void make_w(int i) { ops_w[i] = new w_op(ex::connect(mtx->readwrite(), recv{i})); }
__attribute__((noinline)) static void make_r(int i) { ops_r[i] = new r_op(ex::connect(mtx->read(), recv{i})); }
extern "C" void rw_init()
{
    mtx = new mutex_t();
    for (int i = 0; i < NACC; ++i)
    {
        kind[i] = (int) verif_nondet_range(0, 1);
        if (kind[i]) make_w(i);
        else
            make_r(i);
    }
}
static void access(int i)
{
    if (kind[i]) ex::start(*ops_w[i]);
    else
        ex::start(*ops_r[i]);
    verif_block_until(&granted[i]);    // the grant may arrive inline or from the releasing thread
    active[i] = 0;
    released[i] = 1;
    if (kind[i]) { delete held_w[i]; held_w[i] = nullptr; }
    else
        { delete held_r[i]; held_r[i] = nullptr; }
}
extern "C" void rw_thread_0() { access(0); }
extern "C" void rw_thread_1() { access(1); }
#if NACC > 2
extern "C" void rw_thread_2() { access(2); }
#endif
extern "C" void rw_final()
{
    for (int i = 0; i < NACC; ++i) verif_assert(grants[i] == 1, "every started access was granted exactly once");
    verif_cover(0);
}
