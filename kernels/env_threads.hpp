// Environment for kernels that need real task objects (thread_data) but not the scheduler:
//  * real thread_data.cpp, thread_data_stackless.cpp, thread_helpers.cpp, coroutine_self.cpp, function sources
//  * coroutine switch replaced by its contract: `verif_self` implements the abstract coroutine_self; a
//    yield(suspended) blocks until the task is resumed, any other yield is one scheduling point
//  * set_thread_state(id, pending, ..) (the wake-up path, subject of C02) is the contract
//    "a resume issued after the task asked to be suspended makes that yield return"
//  * stand-in pool (env_pool.hpp) creates real thread_data_stackless objects for new threads
#pragma once
#define VERIF_POOL_REAL_THREADS 1
#include "env_pre.hpp"
#include </repo/libs/pika/threading_base/src/thread_data.cpp>
#include </repo/libs/pika/threading_base/src/thread_data_stackless.cpp>
#include </repo/libs/pika/threading_base/src/thread_helpers.cpp>
#include </repo/libs/pika/functional/src/basic_function.cpp>
#include </repo/libs/pika/functional/src/empty_function.cpp>
#include <pika/thread_support/spinlock.hpp>
#include </repo/libs/pika/coroutines/src/detail/coroutine_self.cpp>
#include "env_errors.hpp"

#ifndef VERIF_MAX_SLOTS
#define VERIF_MAX_SLOTS 4
#endif

namespace pika {
    [[noreturn]] void throw_exception(error e, std::string const&, std::string const&) { verif_detail::throw_exception(e); }
}

namespace ptd = pika::threads::detail;
namespace pcd = pika::threads::coroutines::detail;

struct verif_self final : pcd::coroutine_self
{
    verif_self() : coroutine_self(nullptr) {}
    std::uint32_t token = 0;                 // wake-up token
    ptd::thread_restart_state wake = ptd::thread_restart_state::signaled;
    ptd::thread_data* td = nullptr;         // the task object of this harness thread
    std::size_t data = 0, rec = 0;
    int yields = 0;

    arg_type yield_impl(result_type arg) override
    {
        ++yields;
        if (arg.first == ptd::thread_schedule_state::suspended)
        {
            verif_block_until(&token);
            token = 0;
            return wake;
        }
        verif_yield();
        return ptd::thread_restart_state::signaled;
    }
    thread_id_type get_thread_id() const override { return thread_id_type(td); }
    std::size_t get_thread_phase() const override { return 0; }
    std::ptrdiff_t get_available_stack_space() override { return 1 << 20; }
    std::size_t get_thread_data() const override { return data; }
    std::size_t set_thread_data(std::size_t d) override { std::size_t o = data; data = d; return o; }
    pcd::tss_storage* get_thread_tss_data() override { return nullptr; }
    pcd::tss_storage* get_or_create_thread_tss_data() override { return nullptr; }
    std::size_t& get_continuation_recursion_count() override { return rec; }
};
static verif_self verif_selfs[VERIF_MAX_SLOTS];

static ptd::thread_result_type verif_idle_body(ptd::thread_restart_state)
{
    return ptd::thread_result_type(ptd::thread_schedule_state::terminated, ptd::invalid_thread_id);
}
// gives harness thread `slot` the identity of a real (stackless) task object and installs its coroutine self
static void verif_become_task(int slot)
{
    if (!verif_selfs[slot].td)
    {
        ptd::thread_init_data d(&verif_idle_body, "harness task");
        verif_selfs[slot].td = ptd::thread_data_stackless::create(d, nullptr, 0x8000);
        verif_selfs[slot].td->set_state(ptd::thread_schedule_state::active);
    }
    pcd::coroutine_self::set_self(&verif_selfs[slot]);
}

namespace pika::threads::detail {
    // wake-up contract (the real set_thread_state is the subject of C02)
    thread_state set_thread_state(thread_id_type const& id, thread_schedule_state new_state, thread_restart_state new_state_ex,
        execution::thread_priority, execution::thread_schedule_hint, bool, error_code&)
    {
        for (int s = 0; s < VERIF_MAX_SLOTS; ++s)
            if (verif_selfs[s].td && thread_id_type(verif_selfs[s].td) == id && new_state == thread_schedule_state::pending)
            {
                verif_selfs[s].wake = new_state_ex;
                verif_selfs[s].token = 1;
            }
        return thread_state(thread_schedule_state::suspended, thread_restart_state::signaled);
    }
}    // namespace pika::threads::detail
