"""Per-property query tables for ./check (DESIGN.md section 7).  Every query names the kernel TU (which
#includes the real /repo sources), the root prefix of the scenario inside it, the translation mode and
the bounds.  tiers: which tier runs the query (default both)."""

COMMON_ASSUMPTIONS = [
    'Encoding = clang++-14 -O1 LLVM IR of the real /repo sources, translated to C by /verif/tools/ll2c and decided by CBMC 6.11 + kissat; '
    'translator validated on every run by comparing the gcc build of the generated C with the clang build of the same IR on seeded concrete runs.',
    'Sequential consistency: memory_order arguments are ignored; weak compare_exchange never fails spuriously; non-atomic accesses are assumed race-free '
    '(context switches only at atomic operations and at environment blocking/polling primitives).',
    'Schedules: all round-robin schedules with R contexts per thread (budget per context arbitrary in [0,BMAX] visible operations, last round run-to-block); '
    'loops inside a context bounded by --unwind with unwinding assertions. Nothing is claimed outside these bounds.',
    'Allocation never fails; freed addresses are never reused (double delete is an assertion, ABA through the allocator is out of scope unless a kernel models its own pool).',
    'PIKA_ASSERT (kernels are built with -DPIKA_DEBUG) and PIKA_UNREACHABLE are proof obligations via pika::detail::handle_assert.',
]

PROPS = {}

PROPS['C17'] = {
    'assumptions': [
        'contiguous_index_queue<uint32_t>: sequential query at full 32-bit width (arbitrary a<=b, 4 pops); concurrent queries with a in [0,4], length in [0,4].',
        'concurrentqueue.hpp (moodycamel) is outside the claim (DESIGN 7/C17).',
    ],
    'queries': [
        dict(name='ciq_seq_fullwidth', kernel='C17_index_queue.cpp', prefix='seq_', mode='seq', unwind=6),
        dict(name='ciq_conc_T2_K2', kernel='C17_index_queue.cpp', prefix='conc_', mode='res', lower_defs=['-DNTHREADS=2'], R=3, BMAX=10, unwind=4, covers=[0]),
        dict(name='ciq_conc_T3_K2', kernel='C17_index_queue.cpp', prefix='conc_', mode='res', lower_defs=['-DNTHREADS=3'], R=3, BMAX=10, unwind=4, tiers=('thorough',), timeout=3000),
    ],
}

PROPS['C06'] = {
    'assumptions': [
        'Real mutex.cpp, detail/condition_variable.cpp, spinlock.hpp, agent_ref.cpp, error_code.cpp; agent = stub implementation of the public agent_base interface '
        '(suspend blocks until a resume token is deposited; yield/yield_k = one polling step; sleep_until returns when resumed or, nondeterministically, on deadline).',
        'Task identity = one distinct non-null thread id per harness thread (migration between workers is invisible at this layer).',
        'Error back end (throw_exception/throws_if) stubbed: error code recorded, verif_pika_error thrown in throws mode, no message formatting.',
    ],
    'queries': [
        dict(name='mutex_T2_S2', kernel='C06_mutex.cpp', prefix='mx_', mode='res', lower_defs=['-DNTHREADS=2'], shim='shim_sync', inline=20000, R=3, BMAX=60, unwind=3, covers=[0], timeout=1500),
        dict(name='mutex_misuse', kernel='C06_mutex.cpp', prefix='misuse_', mode='seq', lower_defs=['-DNTHREADS=2'], shim='shim_sync', inline=20000, unwind=6),
        dict(name='mutex_T3_S1', kernel='C06_mutex.cpp', prefix='mx_', mode='res', lower_defs=['-DNTHREADS=3', '-DNSEC=1'], shim='shim_sync', inline=20000, R=3, BMAX=60, unwind=3, tiers=('thorough',), timeout=6000),
    ],
}
