#!/bin/sh
# builds /verif/.bin/ll2c from source (offline; libLLVM-14 is preinstalled)
set -e
cd "$(dirname "$0")"
mkdir -p ../../.bin
if [ ../../.bin/ll2c -nt main.cpp ] && [ ../../.bin/ll2c -nt emit.cpp ] && [ ../../.bin/ll2c -nt types.cpp ] && [ ../../.bin/ll2c -nt ll2c.hpp ]; then exit 0; fi
CXXFLAGS="$(llvm-config-14 --cxxflags | sed 's/-std=[^ ]*//; s/-fno-exceptions//')"
for f in main emit types; do g++ -std=c++17 -O1 $CXXFLAGS -c $f.cpp -o ../../.bin/ll2c_$f.o & done; wait
g++ ../../.bin/ll2c_main.o ../../.bin/ll2c_emit.o ../../.bin/ll2c_types.o -o ../../.bin/ll2c -L/usr/lib/llvm-14/lib -lLLVM-14
