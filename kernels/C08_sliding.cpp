// C08 — sliding_semaphore (real detail/sliding_semaphore.cpp over detail/condition_variable.cpp).
#include "env_pre.hpp"
#include </repo/libs/pika/synchronization/src/detail/condition_variable.cpp>
#include </repo/libs/pika/synchronization/src/detail/sliding_semaphore.cpp>
#include <pika/synchronization/sliding_semaphore.hpp>
#include "env_sync.hpp"

static pika::sliding_semaphore* ss;
static long maxdiff, upper[2], signalled_max;    // ghost: largest lower limit whose signal() has returned or is in progress
static int waiting[2];

extern "C" void sld_init()
{
    maxdiff = verif_nondet_range(1, 2);
    ss = new pika::sliding_semaphore(maxdiff, 0);
}
static void waiter(int i)
{
    upper[i] = verif_nondet_range(1, 4);
    waiting[i] = 1;
    ss->wait(upper[i]);
    waiting[i] = 0;
    verif_assert(upper[i] - maxdiff <= signalled_max, "sliding wait returns only once the signalled lower bound is within the configured distance");
}
extern "C" void sld_thread_0() { waiter(0); }
extern "C" void sld_thread_1()
{
    for (int k = 0; k < 2; ++k)
    {
        long l = verif_nondet_range(1, 3);
        if (l > signalled_max) signalled_max = l;
        ss->signal(l);
    }
}
#if NTHREADS > 2
extern "C" void sld_thread_2() { waiter(1); }
#endif
extern "C" void sld_stuck()
{
    for (int i = 0; i < 2; ++i)
        if (waiting[i]) verif_assert(upper[i] - maxdiff > signalled_max, "a sliding waiter stays blocked only while the lower bound is too far away (no lost signal)");
}
extern "C" void sld_final() { verif_cover(0); }
