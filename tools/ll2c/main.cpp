#include "ll2c.hpp"

#include <llvm/Bitcode/BitcodeWriter.h>
#include <llvm/Support/FileSystem.h>
#include <llvm/Support/MemoryBuffer.h>

void emitFunction(Ctx& C, Function& F, raw_ostream& protoOut, raw_ostream& bodyOut, int& nVisible);

static cl::opt<std::string> Input(cl::Positional, cl::desc("<input .ll>"), cl::Required);
static cl::opt<std::string> Output("o", cl::desc("output"), cl::init("-"));
static cl::opt<std::string> Mode("mode", cl::desc("seq|res|instr"), cl::init("seq"));
static cl::opt<std::string> Prefix("prefix", cl::desc("root prefix: <p>main | <p>init,<p>thread_<i>,<p>final"), cl::init("verif_"));
static cl::opt<std::string> KnownFile("known", cl::desc("file listing external functions modelled by the runtime"), cl::init(""));
static cl::opt<std::string> Benign("benign", cl::desc("comma separated mangled-name prefixes stubbed as no-ops returning zero"),
    cl::init("_ZN3fmt,_ZNK3fmt,__assert_fail,_ZNSt3_V214error_categoryD,_ZNSt8ios_base4Init,_ZNSt18condition_variableC,_ZNSt18condition_variableD"));
static cl::opt<bool> AllowCycles("allow-cycles", cl::desc("res mode: tolerate static call cycles (through loose indirect-call targets); real re-entry asserts"), cl::init(true));
static cl::opt<std::string> Opaque("opaque", cl::desc("comma separated mangled-name prefixes of DEFINED functions treated as environment stubs"), cl::init("_ZN3fmt,_ZNK3fmt"));
static cl::opt<bool> NoExprInline("no-expr-inline", cl::desc("keep one C variable per IR value"), cl::init(false));
static cl::opt<bool> RefcountMovers("refcount-movers", cl::desc("opt-in reduction: +-1 reference-count RMWs are atomic but not context-switch points"), cl::init(false));
static cl::opt<std::string> PtrBuf("ptrbuf", cl::desc("comma separated substrings of struct names whose SBO byte buffers are emitted as pointer arrays"), cl::init(""));
static cl::opt<std::string> Cut("cut", cl::desc("comma separated mangled names of DEFINED functions that the scenario must never reach: not translated, a call is an assertion failure"), cl::init(""));
static cl::opt<bool> Flat("flat", cl::desc("res mode: guarded-segment layout"), cl::init(false));
static cl::opt<bool> Chain("chain", cl::desc("res mode: skip-chain layout"), cl::init(false));
static cl::opt<std::string> Meta("meta", cl::desc("metadata json output"), cl::init(""));

static void scanConst(Ctx& C, Constant* K, std::vector<Function*>& wl, SmallPtrSetImpl<Constant*>& seen, bool asCallee);

static void reachGlobal(Ctx& C, GlobalVariable* G, std::vector<Function*>& wl, SmallPtrSetImpl<Constant*>& seen)
{
    if (C.reachG.insert(G).second)
    {
        C.globals.push_back(G);
        if (G->hasInitializer()) scanConst(C, G->getInitializer(), wl, seen, false);
    }
}

static void scanConst(Ctx& C, Constant* K, std::vector<Function*>& wl, SmallPtrSetImpl<Constant*>& seen, bool asCallee)
{
    if (auto* F = dyn_cast<Function>(K))
    {
        if (!asCallee) C.addrTaken.insert(F);
        if (C.reachF.insert(F).second) wl.push_back(F);
        return;
    }
    if (auto* G = dyn_cast<GlobalVariable>(K))
    {
        reachGlobal(C, G, wl, seen);
        return;
    }
    if (auto* A = dyn_cast<GlobalAlias>(K))
    {
        scanConst(C, A->getAliasee(), wl, seen, asCallee);
        return;
    }
    if (!seen.insert(K).second) return;
    for (Value* Op : K->operands())
        if (auto* KO = dyn_cast<Constant>(Op)) scanConst(C, KO, wl, seen, false);
}

static std::string jsonEsc(const std::string& s)
{
    std::string r;
    for (char c : s)
    {
        if (c == '"' || c == '\\') r += '\\';
        if ((unsigned char) c < 32) continue;
        r += c;
    }
    return r;
}

// ---- instr mode: insert native yield / change-tracking calls around visible operations -------
// native replay: harness threads are coroutines on ONE OS thread, so thread_local globals must be switched with
// them: every thread_local global becomes an array indexed by the current harness thread slot (as in the encoding)
static Value* rewriteTlsOperand(Value* V, Instruction* Before, DenseMap<GlobalVariable*, GlobalVariable*>& slots, FunctionCallee tid)
{
    if (auto* G = dyn_cast<GlobalVariable>(V))
    {
        auto it = slots.find(G);
        if (it == slots.end()) return nullptr;
        IRBuilder<> B(Before);
        Value* c = B.CreateCall(tid, {});
        Value* idx[] = {ConstantInt::get(Type::getInt64Ty(V->getContext()), 0), B.CreateZExt(c, Type::getInt64Ty(V->getContext()))};
        return B.CreateInBoundsGEP(it->second->getValueType(), it->second, idx);
    }
    if (auto* CE = dyn_cast<ConstantExpr>(V))
    {
        bool any = false;
        SmallVector<Value*, 4> ops;
        for (Value* Op : CE->operands())
        {
            Value* N = rewriteTlsOperand(Op, Before, slots, tid);
            ops.push_back(N ? N : Op);
            any |= N != nullptr;
        }
        if (!any) return nullptr;
        Instruction* I = CE->getAsInstruction();
        for (unsigned i = 0; i < ops.size(); ++i) I->setOperand(i, ops[i]);
        I->insertBefore(Before);
        return I;
    }
    return nullptr;
}
static int rewriteTls(Module& M)
{
    LLVMContext& X = M.getContext();
    DenseMap<GlobalVariable*, GlobalVariable*> slots;
    for (GlobalVariable& G : M.globals())
        if (G.isThreadLocal() && !G.isDeclaration())
        {
            auto* AT = ArrayType::get(G.getValueType(), 8);
            Constant* init = ConstantAggregateZero::get(AT);
            if (G.hasInitializer() && !G.getInitializer()->isNullValue() && !isa<UndefValue>(G.getInitializer()))
            {
                std::vector<Constant*> el(8, G.getInitializer());
                init = ConstantArray::get(AT, el);
            }
            slots[&G] = new GlobalVariable(M, AT, false, GlobalValue::InternalLinkage, init, G.getName() + ".slots");
        }
    if (slots.empty()) return 0;
    FunctionCallee tid = M.getOrInsertFunction("verif_tid", FunctionType::get(Type::getInt32Ty(X), false));
    int n = 0;
    for (Function& F : M)
        for (BasicBlock& BB : F)
            for (Instruction& I : BB)
            {
                if (auto* P = dyn_cast<PHINode>(&I))
                {
                    for (unsigned i = 0; i < P->getNumIncomingValues(); ++i)
                        if (Value* N = rewriteTlsOperand(P->getIncomingValue(i), P->getIncomingBlock(i)->getTerminator(), slots, tid))
                        {
                            P->setIncomingValue(i, N);
                            ++n;
                        }
                    continue;
                }
                for (unsigned i = 0; i < I.getNumOperands(); ++i)
                    if (Value* N = rewriteTlsOperand(I.getOperand(i), &I, slots, tid))
                    {
                        I.setOperand(i, N);
                        ++n;
                    }
            }
    return n;
}

static int instrument(Module& M)
{
    LLVMContext& X = M.getContext();
    Type* V = Type::getVoidTy(X);
    Type* I8P = Type::getInt8PtrTy(X);
    Type* I64 = Type::getInt64Ty(X);
    FunctionCallee pre = M.getOrInsertFunction("verif_native_pre", FunctionType::get(V, {I8P, I64}, false));
    FunctionCallee post = M.getOrInsertFunction("verif_native_post", FunctionType::get(V, {I8P, I64}, false));
    const DataLayout& DL = M.getDataLayout();
    int n = 0;
    for (Function& F : M)
    {
        if (F.isDeclaration()) continue;
        std::vector<Instruction*> vis;
        for (Instruction& I : instructions(F))
            if (isVisibleInst(I)) vis.push_back(&I);
        for (Instruction* I : vis)
        {
            Value* P = nullptr;
            uint64_t sz = 0;
            bool writes = false;
            if (auto* L = dyn_cast<LoadInst>(I)) P = L->getPointerOperand(), sz = DL.getTypeStoreSize(L->getType());
            else if (auto* S = dyn_cast<StoreInst>(I))
                P = S->getPointerOperand(), sz = DL.getTypeStoreSize(S->getValueOperand()->getType()), writes = true;
            else if (auto* R = dyn_cast<AtomicRMWInst>(I))
                P = R->getPointerOperand(), sz = DL.getTypeStoreSize(R->getType()), writes = true;
            else if (auto* C = dyn_cast<AtomicCmpXchgInst>(I))
                P = C->getPointerOperand(), sz = DL.getTypeStoreSize(C->getCompareOperand()->getType()), writes = true;
            else if (auto* CB = dyn_cast<CallBase>(I))
            {
                StringRef nm = CB->getCalledFunction()->getName();
                if (nm.startswith("verif_")) continue;    // runtime implements block/spin/yield itself
                // generic libatomic: (size, ptr, ...); sized variants: (ptr, ...)
                if (nm == "__atomic_load" || nm == "__atomic_store" || nm == "__atomic_exchange" || nm == "__atomic_compare_exchange")
                {
                    P = CB->getArgOperand(1);
                    if (auto* CI = dyn_cast<ConstantInt>(CB->getArgOperand(0))) sz = CI->getZExtValue();
                    else
                        die("libatomic call with non-constant size");
                }
                else
                {
                    P = CB->getArgOperand(0);
                    size_t us = nm.rfind('_');
                    sz = std::stoul(nm.substr(us + 1).str());
                }
                writes = !nm.startswith("__atomic_load");
            }
            IRBuilder<> B(I);
            Value* P8 = P ? B.CreateBitCast(P, I8P) : Constant::getNullValue(I8P);
            B.CreateCall(pre, {P8, ConstantInt::get(I64, writes ? sz : 0)});
            if (writes)
            {
                Instruction* After = nullptr;
                if (auto* IV = dyn_cast<InvokeInst>(I)) After = &*IV->getNormalDest()->getFirstInsertionPt();
                else
                    After = I->getNextNode();
                IRBuilder<> B2(After);
                B2.CreateCall(post, {P8, ConstantInt::get(I64, sz)});
            }
            ++n;
        }
    }
    return n;
}

int main(int argc, char** argv)
{
    cl::ParseCommandLineOptions(argc, argv, "ll2c\n");
    LLVMContext X;
    SMDiagnostic E;
    auto MP = parseIRFile(Input, E, X);
    if (!MP)
    {
        E.print("ll2c", errs());
        return 3;
    }
    Module& M = *MP;
    std::error_code EC;

    Ctx C(M);
    {
        SmallVector<StringRef, 8> op;
        StringRef(Opaque).split(op, ',');
        for (StringRef o : op)
            if (!o.empty() && Mode != "instr") C.opaquePrefixes.push_back(o.str());    // the native build runs the real formatting code
        SmallVector<StringRef, 8> pb;
        StringRef(PtrBuf).split(pb, ',');
        for (StringRef o : pb)
            if (!o.empty() && Mode != "instr") C.ptrBufOwners.push_back(o.str());
        C.computePtrBufs();
        SmallVector<StringRef, 8> ct;
        StringRef(Cut).split(ct, ',');
        for (StringRef o : ct)
            if (!o.empty() && Mode != "instr") C.opaquePrefixes.push_back(o.str());
    }
    C.res = (Mode == "res");
    C.chain = Chain;
    C.flat = Flat;
    gRefcountMovers = RefcountMovers;
    C.exprInline = !NoExprInline;
    C.prefix = Prefix;

    // roots
    std::vector<Function*> roots, threads;
    Function *fInit = nullptr, *fFinal = nullptr, *fMain = nullptr, *fStuck = nullptr;
    for (Function& F : M)
    {
        if (F.isDeclaration() || !F.getName().startswith(Prefix)) continue;
        StringRef r = F.getName().substr(Prefix.size());
        if (r == "main") fMain = &F;
        else if (r == "init")
            fInit = &F;
        else if (r == "final")
            fFinal = &F;
        else if (r == "stuck")
            fStuck = &F;
        else if (r.startswith("thread_"))
        {
            unsigned k;
            if (r.substr(7).getAsInteger(10, k)) continue;
            if (threads.size() <= k) threads.resize(k + 1);
            threads[k] = &F;
        }
        else
            continue;
        roots.push_back(&F);
    }
    if (roots.empty()) die("no root functions with prefix " + Prefix);
    // dynamic initialisers of globals (llvm.global_ctors) run before the scenario
    std::vector<Function*> ctors;
    if (GlobalVariable* GC = M.getGlobalVariable("llvm.global_ctors"))
        if (auto* CA = dyn_cast<ConstantArray>(GC->getInitializer()))
        {
            std::vector<std::pair<uint64_t, Function*>> pc;
            for (Value* E : CA->operands())
            {
                auto* CS = cast<ConstantStruct>(E);
                if (auto* F = dyn_cast<Function>(CS->getOperand(1)->stripPointerCasts()))
                    pc.push_back({cast<ConstantInt>(CS->getOperand(0))->getZExtValue(), F});
            }
            std::stable_sort(pc.begin(), pc.end(), [](auto& a, auto& b) { return a.first < b.first; });
            for (auto& p : pc)
            {
                ctors.push_back(p.second);
                roots.push_back(p.second);
            }
        }
    for (Function* T : threads)
        if (!T) die("thread roots must be numbered contiguously from 0");

    auto reach = [&](Ctx& X, const std::vector<Function*>& rts) {
        std::vector<Function*> wl;
        SmallPtrSet<Constant*, 32> seen;
        for (Function* R : rts)
            if (X.reachF.insert(R).second) wl.push_back(R);
        while (!wl.empty())
        {
            Function* F = wl.back();
            wl.pop_back();
            if (C.isExt(F)) continue;
            X.funcs.push_back(F);
            for (Instruction& I : instructions(*F))
            {
                if (auto* CB = dyn_cast<CallBase>(&I))
                    if (auto* G = dyn_cast<Function>(CB->getCalledOperand()))
                        if (C.skipCalls.count(G)) continue;
                for (unsigned i = 0; i < I.getNumOperands(); ++i)
                {
                    Value* Op = I.getOperand(i);
                    auto* K = dyn_cast<Constant>(Op);
                    if (!K) continue;
                    bool callee = false;
                    if (auto* CB = dyn_cast<CallBase>(&I)) callee = (CB->getCalledOperand() == Op) && isa<Function>(Op);
                    scanConst(X, K, wl, seen, callee);
                }
            }
        }
    };
    // dynamic initialisers that only touch globals the scenario cannot reach are skipped (identically in
    // the encoding and in the native replay build)
    {
        std::vector<Function*> scen;
        for (Function* R : roots)
            if (std::find(ctors.begin(), ctors.end(), R) == ctors.end()) scen.push_back(R);
        Ctx S0(M);
        reach(S0, scen);
        for (Function* T : ctors)
            for (Instruction& I : instructions(*T))
                if (auto* CB = dyn_cast<CallBase>(&I))
                    if (auto* G = dyn_cast<Function>(CB->getCalledOperand()))
                        if (!G->isDeclaration() && G->getName().startswith("__cxx_global_var_init"))
                        {
                            Ctx S1(M);
                            reach(S1, {G});
                            bool touches = false;
                            for (GlobalVariable* GV : S1.globals)
                                if (S0.reachG.count(GV) && !GV->isConstant() && !GV->getName().startswith("_ZGV") && GV->getName() != "__dso_handle")
                                    touches = true;
                            if (!touches) C.skipCalls.insert(G);
                        }
        // ctor entries of their own (static members of class templates)
        std::vector<Function*> kept;
        for (Function* T : ctors)
        {
            bool drop = false;
            if (T->getName().startswith("__cxx_global_var_init"))
            {
                Ctx S1(M);
                reach(S1, {T});
                drop = true;
                for (GlobalVariable* GV : S1.globals)
                    if (S0.reachG.count(GV) && !GV->isConstant() && !GV->getName().startswith("_ZGV") && GV->getName() != "__dso_handle") drop = false;
            }
            if (drop) roots.erase(std::find(roots.begin(), roots.end(), T));
            else
                kept.push_back(T);
        }
        if (Mode == "instr")
        {
            // native build: run every initialiser as usual (those skipped in the encoding cannot influence the scenario)
            C.skipCalls.clear();
            for (Function* T : ctors)
                if (std::find(roots.begin(), roots.end(), T) == roots.end()) roots.push_back(T);
        }
        else
            ctors = kept;
    }
    reach(C, roots);
    std::sort(C.funcs.begin(), C.funcs.end(), [](Function* a, Function* b) { return a->getName() < b->getName(); });

    if (Mode == "instr")
    {
        // prune everything the scenario cannot reach (so that the native link only needs what the encoding
        // needs), then instrument the visible operations
        std::set<Function*> keep(C.funcs.begin(), C.funcs.end());
        int pruned = 0;

        {
            std::vector<GlobalAlias*> dead;
            for (GlobalAlias& A : M.aliases())
            {
                auto* F = dyn_cast<Function>(A.getAliasee()->stripPointerCasts());
                if (F && !keep.count(F)) dead.push_back(&A);
            }
            for (GlobalAlias* A : dead)
            {
                std::string nm = A->getName().str();
                auto* FT = cast<FunctionType>(A->getValueType());
                A->setName(nm + ".dead");
                Function* D = Function::Create(FT, GlobalValue::ExternalLinkage, nm, &M);
                A->replaceAllUsesWith(D);
                A->eraseFromParent();
            }
        }
        for (Function& F : M)
            if (!F.isDeclaration() && !keep.count(&F))
            {
                F.deleteBody();
                F.setLinkage(GlobalValue::ExternalLinkage);
                F.setComdat(nullptr);
                ++pruned;
            }
        for (GlobalVariable& G : M.globals())
            if (G.hasInitializer() && !C.reachG.count(&G) && G.getName() != "llvm.global_ctors" && !G.getName().startswith("llvm."))
            {
                G.setInitializer(nullptr);
                G.setLinkage(GlobalValue::ExternalLinkage);
                G.setComdat(nullptr);
            }
        int n = instrument(M);
        int ntls = rewriteTls(M);
        if (ntls) errs() << "ll2c: rewrote " << ntls << " uses of thread_local globals to per-slot storage\n";
        if (verifyModule(M, &errs())) die("instrumented module does not verify");
        raw_fd_ostream out(Output, EC, sys::fs::OF_Text);
        M.print(out, nullptr);
        errs() << "ll2c: instrumented " << n << " visible operations, pruned " << pruned << " unreachable functions\n";
        return 0;
    }

    // resumable set (fixpoint)
    if (C.res)
    {
        bool ch = true;
        // thread roots are always resumable (uniform glue)
        for (Function* T : threads) C.resumable.insert(T);
        while (ch)
        {
            ch = false;
            for (Function* F : C.funcs)
            {
                if (C.resumable.count(F)) continue;
                bool r = false;
                for (Instruction& I : instructions(*F))
                {
                    if (isVisibleInst(I))
                    {
                        r = true;
                        break;
                    }
                    if (auto* CB = dyn_cast<CallBase>(&I))
                    {
                        if (isa<InlineAsm>(CB->getCalledOperand())) continue;
                        Function* G = dyn_cast<Function>(CB->getCalledOperand()->stripPointerCasts());
                        if (G && G->getFunctionType() != CB->getFunctionType()) G = nullptr;
                        if (G)
                        {
                            if (C.resumable.count(G)) r = true;
                        }
                        else
                            for (Function* H : C.indirectTargets(CB))
                                if (C.resumable.count(H)) r = true;
                        if (r) break;
                    }
                }
                if (r)
                {
                    C.resumable.insert(F);
                    ch = true;
                }
            }
        }
        // recursion check among resumable functions
        std::map<Function*, int> st;
        std::vector<Function*> stack;
        std::function<void(Function*)> dfs = [&](Function* F) {
            st[F] = 1;
            stack.push_back(F);
            for (Instruction& I : instructions(*F))
                if (auto* CB = dyn_cast<CallBase>(&I))
                {
                    if (isa<InlineAsm>(CB->getCalledOperand())) continue;
                    std::vector<Function*> tg;
                    Function* G = dyn_cast<Function>(CB->getCalledOperand()->stripPointerCasts());
                    if (G && G->getFunctionType() != CB->getFunctionType()) G = nullptr;
                    if (G) tg.push_back(G);
                    else
                        for (Function* H : C.indirectTargets(CB)) tg.push_back(H);
                    for (Function* T : tg)
                    {
                        if (!C.resumable.count(T)) continue;
                        if (st[T] == 1)
                        {
                            std::string cyc;
                            for (Function* S : stack) cyc += "\n    " + demangle(S->getName().str());
                            if (!AllowCycles) die("recursion among resumable functions via " + demangle(T->getName().str()) + ":" + cyc);
                            errs() << "ll2c: warning: static call cycle among resumable functions via " << demangle(T->getName().str())
                                   << " (re-entry is checked dynamically)\n";
                            continue;
                        }
                        if (st[T] == 0) dfs(T);
                    }
                }
            stack.pop_back();
            st[F] = 2;
        };
        for (Function* F : C.funcs)
            if (C.resumable.count(F) && st[F] == 0) dfs(F);
    }

    for (GlobalVariable* G : C.globals)
        if (G->isThreadLocal() && G->hasInitializer() && !G->getInitializer()->isNullValue() && !isa<UndefValue>(G->getInitializer()))
            die("thread_local global with non-zero initialiser not supported: " + G->getName().str());

    // reserve names of defined functions first (stable)
    for (Function* F : C.funcs) C.gname(F);

    std::string protoS, bodyS, globS, glueS;
    raw_string_ostream proto(protoS), body(bodyS), glob(globS), glue(glueS);
    std::string metaFuncs;
    int totalVisible = 0, totalInsts = 0;
    for (Function* F : C.funcs)
    {
        int nv = 0;
        emitFunction(C, *F, proto, body, nv);
        int ni = 0;
        for (Instruction& I : instructions(*F)) (void) I, ++ni;
        totalVisible += nv;
        totalInsts += ni;
        std::string dn = demangle(F->getName().str());
        if (dn.size() > 200) dn = dn.substr(0, 200) + "...";
        metaFuncs += std::string(metaFuncs.empty() ? "" : ",\n") + "  {\"name\": \"" + jsonEsc(dn) + "\", \"ir_instructions\": " + std::to_string(ni) +
            ", \"visible_ops\": " + std::to_string(nv) + ", \"resumable\": " + (C.resumable.count(F) ? "true" : "false") + "}";
    }

    // globals
    for (size_t i = 0; i < C.globals.size(); ++i)
    {
        GlobalVariable* G = C.globals[i];
        Type* VT = G->getValueType();
        std::string n = C.gname(G);
        if (!VT->isSized())
        {
            glob << "static u64 " << n << "__storage[8]; /* external, unsized */\n#define " << n << " (*(" << C.ty(VT) << "*)" << n << "__storage)\n";
            continue;
        }
        glob << C.ty(VT) << " " << n << (G->isThreadLocal() ? "[VERIF_NSLOT]" : "") << ";\n";
    }
    for (size_t i = 0; i < C.globals.size(); ++i)
    {
        GlobalVariable* G = C.globals[i];
        Type* VT = G->getValueType();
        if (!VT->isSized() || !G->hasInitializer()) continue;    // external: tentative definition above = zero
        Constant* K = G->getInitializer();
        if (K->isNullValue() || isa<UndefValue>(K)) continue;
        glob << C.ty(VT) << " " << C.gname(G) << " = " << C.cinit(K) << ";\n";
    }

    // exception type matcher
    {
        // base relation from typeinfo initialisers + builtin std hierarchy
        std::map<std::string, std::set<std::string>> bases;
        const char* builtin[][2] = {{"_ZTISt13runtime_error", "_ZTISt9exception"}, {"_ZTISt11logic_error", "_ZTISt9exception"},
            {"_ZTISt12system_error", "_ZTISt13runtime_error"}, {"_ZTISt9bad_alloc", "_ZTISt9exception"},
            {"_ZTISt12out_of_range", "_ZTISt11logic_error"}, {"_ZTISt16invalid_argument", "_ZTISt11logic_error"},
            {"_ZTISt12length_error", "_ZTISt11logic_error"}, {"_ZTISt17bad_function_call", "_ZTISt9exception"},
            {"_ZTISt8bad_cast", "_ZTISt9exception"}, {"_ZTISt20bad_array_new_length", "_ZTISt9bad_alloc"},
            {"_ZTISt12future_error", "_ZTISt11logic_error"}, {"_ZTISt14overflow_error", "_ZTISt13runtime_error"},
            {"_ZTISt12domain_error", "_ZTISt11logic_error"}, {"_ZTISt11range_error", "_ZTISt13runtime_error"},
            {"_ZTISt13bad_exception", "_ZTISt9exception"}, {"_ZTISt10bad_typeid", "_ZTISt9exception"}};
        for (auto& b : builtin) bases[b[0]].insert(b[1]);
        for (GlobalVariable& G : M.globals())
        {
            if (!G.getName().startswith("_ZTI") || !G.hasInitializer()) continue;
            auto* CS = dyn_cast<ConstantStruct>(G.getInitializer());
            if (!CS) continue;
            for (Value* Op : CS->operands())
                if (auto* B = dyn_cast<GlobalVariable>(Op->stripPointerCasts()))
                    if (B->getName().startswith("_ZTI")) bases[G.getName().str()].insert(B->getName().str());
        }
        std::function<bool(const std::string&, const std::string&)> derives = [&](const std::string& d, const std::string& b) {
            if (d == b) return true;
            for (auto& x : bases[d])
                if (derives(x, b)) return true;
            return false;
        };
        glue << "static int verif_exc_matches(u8* thrown, u8* catcher)\n{\n  if (thrown == catcher) return 1;\n";
        for (auto& kv : C.typeIds)
            for (GlobalVariable* G : C.globals)
                if (G != kv.first && G->getName().startswith("_ZTI") && derives(G->getName().str(), kv.first->getName().str()))
                    glue << "  if (thrown == (u8*)&" << C.gname(G) << " && catcher == (u8*)&" << C.gname(kv.first) << ") return 1;\n";
        glue << "  return 0;\n}\n";
    }

    // glue: roots
    auto callRoot = [&](Function* F, const std::string& cname) {
        glue << "void " << cname << "(void)\n{\n";
        if (F)
        {
            if (C.res && C.resumable.count(F))
                glue << "  FRS_" << C.gname(F) << "[verif_cur].pc = 0;\n  verif_mode = 0;\n  if (" << C.gname(F)
                     << "__step()) { VERIF_ASSERT(0, \"init/final/main blocked or was pre-empted\"); VERIF_ASSUME(0); }\n  verif_mode = 0;\n";
            else
                glue << "  " << C.gname(F) << "();\n";
        }
        glue << "}\n";
    };
    glue << "void verif_glue_ctors(void)\n{\n";
    for (Function* F : ctors)
    {
        if (C.res && C.resumable.count(F))
            glue << "  FRS_" << C.gname(F) << "[verif_cur].pc = 0;\n  verif_mode = 0;\n  if (" << C.gname(F)
                 << "__step()) { VERIF_ASSERT(0, \"global constructor blocked\"); VERIF_ASSUME(0); }\n  verif_mode = 0;\n";
        else
            glue << "  " << C.gname(F) << "();\n";
    }
    glue << "}\n";
    callRoot(fInit, "verif_glue_init");
    callRoot(fFinal, "verif_glue_final");
    callRoot(fMain, "verif_glue_main");
    callRoot(fStuck, "verif_glue_stuck");
    glue << "const int verif_glue_has_stuck = " << (fStuck ? 1 : 0) << ";\n";
    glue << "const int verif_glue_nthreads = " << threads.size() << ";\n";
    glue << "int verif_glue_thread_step(int t)\n{\n  switch (t) {\n";
    for (size_t i = 0; i < threads.size(); ++i)
    {
        if (C.res) glue << "    case " << i << ": { int y; verif_mode = 0; y = " << C.gname(threads[i]) << "__step(); verif_mode = 0; return y; }\n";
        else
            glue << "    case " << i << ": " << C.gname(threads[i]) << "(); return 0;\n";
    }
    glue << "    default: return 0;\n  }\n}\n";

    // external prototypes (generic pointer signature)
    std::string extS;
    raw_string_ostream ext(extS);
    std::string metaExt, metaStub;
    std::set<std::string> known;
    if (!KnownFile.empty())
    {
        auto buf = MemoryBuffer::getFile(KnownFile);
        if (!buf) die("cannot read " + KnownFile);
        SmallVector<StringRef, 64> lines;
        (*buf)->getBuffer().split(lines, '\n');
        for (StringRef l : lines)
            if (!l.trim().empty()) known.insert(l.trim().str());
    }
    SmallVector<StringRef, 8> benign;
    StringRef(Benign).split(benign, ',');
    for (Function* F : C.usedExternals)
    {
        if (F->getName().startswith("verif_")) continue;    // declared in verif_gen.h
        FunctionType* FT = F->getFunctionType();
        auto g = [&](Type* T) { return T->isPointerTy() ? std::string("void*") : C.ty(T); };
        ext << g(FT->getReturnType()) << " " << C.gname(F) << "(";
        for (unsigned i = 0; i < FT->getNumParams(); ++i) ext << (i ? ", " : "") << g(FT->getParamType(i));
        if (FT->isVarArg()) ext << (FT->getNumParams() ? ", ..." : "...");
        else if (FT->getNumParams() == 0)
            ext << "void";
        bool isKnown = KnownFile.empty() || known.count(C.gname(F));
        if (isKnown) ext << "); /* " << demangle(F->getName().str()) << " */\n";
        else
        {
            bool ben = false;
            for (StringRef b : benign)
                if (!b.empty() && F->getName().startswith(b)) ben = true;
            // re-emit with parameter names
            ext << ");\n" << g(FT->getReturnType()) << " " << C.gname(F) << "(";
            for (unsigned i = 0; i < FT->getNumParams(); ++i) ext << (i ? ", " : "") << g(FT->getParamType(i)) << " a" << i;
            if (FT->isVarArg()) ext << (FT->getNumParams() ? ", ..." : "...");
            else if (FT->getNumParams() == 0)
                ext << "void";
            ext << ") /* " << (ben ? "benign stub: " : "UNMODELLED: ") << demangle(F->getName().str()) << " */\n{\n";
            if (!ben) ext << "  VERIF_ASSERT(0, \"call to unmodelled external function " << F->getName() << "\"); VERIF_ASSUME(0);\n";
            for (unsigned i = 0; i < FT->getNumParams(); ++i)
                if (F->hasParamAttribute(i, Attribute::StructRet))
                {
                    Type* ST = F->getParamStructRetType(i);
                    ext << "  verif_memset(a" << i << ", 0, " << C.DL.getTypeAllocSize(ST) << ");\n";
                }
            if (!FT->getReturnType()->isVoidTy()) ext << "  return " << (FT->getReturnType()->isPointerTy() ? std::string("(void*)0") : C.zeroOf(FT->getReturnType())) << ";\n";
            ext << "}\n";
            metaStub += std::string(metaStub.empty() ? "" : ", ") + "\"" + jsonEsc(F->getName().str()) + (ben ? " (benign)" : " (asserting)") + "\"";
        }
        metaExt += std::string(metaExt.empty() ? "" : ", ") + "\"" + jsonEsc(F->getName().str()) + "\"";
    }

    raw_fd_ostream out(Output, EC, sys::fs::OF_Text);
    out << "/* generated by ll2c from " << Input << " mode=" << Mode << " prefix=" << Prefix << " */\n";
    out << "#define VERIF_MODE_" << (C.res ? "RES" : "SEQ") << " 1\n#define VERIF_NT " << threads.size() << "\n#include \"verif_gen.h\"\n\n";
    // flush so all types are registered
    proto.flush();
    body.flush();
    glob.flush();
    glue.flush();
    ext.flush();
    C.emitTypeDecls(out);
    out << "\n/* externals */\n" << extS << "\n/* prototypes / frames */\n" << protoS << "\n/* globals */\n" << globS << "\n" << bodyS << "\n/* glue */\n" << glueS << "\n#include \"rt_gen.c\"\n";
    out.flush();

    if (!Meta.empty())
    {
        raw_fd_ostream mo(Meta, EC, sys::fs::OF_Text);
        mo << "{\n \"input\": \"" << jsonEsc(Input) << "\", \"mode\": \"" << Mode << "\", \"prefix\": \"" << jsonEsc(Prefix)
           << "\",\n \"threads\": " << threads.size() << ", \"ir_instructions\": " << totalInsts << ", \"visible_ops\": " << totalVisible
           << ",\n \"roots\": [" << (fInit ? "\"init\"" : "\"-\"") << ", " << (fFinal ? "\"final\"" : "\"-\"") << ", " << (fMain ? "\"main\"" : "\"-\"") << ", " << (fStuck ? "\"stuck\"" : "\"-\"") << "]"
           << ",\n \"externals\": [" << metaExt << "],\n \"stubs\": [" << metaStub << "],\n \"functions\": [\n" << metaFuncs << "\n ]\n}\n";
    }
    return 0;
}
