// C18 (second half) — any_sender<int> / unique_any_sender<int> (real any_sender.hpp + any_sender.cpp: SBO storage,
// vtable-less virtual impl objects, any_operation_state): symbolic histories of construct / copy / move / assign /
// reset / destroy / connect+start on the wrappers against a reference model, with an IDENTITY ledger of the wrapped
// senders (every wrapped sender carries a serial number; a destructor must find it alive).
#include "env_pre.hpp"
#include <pika/execution_base/any_sender.hpp>
#include </repo/libs/pika/execution_base/src/any_sender.cpp>
#include "env_errors.hpp"

namespace pika {
    [[noreturn]] void throw_exception(error e, std::string const&, std::string const&) { verif_detail::throw_exception(e); }
}
namespace ex = pika::execution::experimental;

#ifndef HIST_K
#define HIST_K 4
#endif
#define NSLOT 3
#define MAX_SERIAL 24

enum channel
{
    ch_value = 0,
    ch_error = 1,
    ch_stopped = 2
};
struct test_error
{
    int code;
};

static int next_serial;
static unsigned char alive[MAX_SERIAL];
static int new_serial()
{
    verif_assert(next_serial + 1 < MAX_SERIAL, "encoding bound: more wrapped objects constructed than the ledger holds");
    verif_assume(next_serial + 1 < MAX_SERIAL);
    alive[++next_serial] = 1;
    return next_serial;
}

struct record
{
    int signals = 0, chan = -1, value = 0, err = 0;
};
struct recv
{
    PIKA_STDEXEC_RECEIVER_CONCEPT
    record* r;
    void set_value(int v) && noexcept
    {
        ++r->signals;
        r->chan = ch_value;
        r->value = v;
    }
    void set_error(std::exception_ptr e) && noexcept
    {
        ++r->signals;
        r->chan = ch_error;
        try
        {
            std::rethrow_exception(e);
        }
        catch (test_error const& t)
        {
            r->err = t.code;
        }
        catch (...)
        {
            r->err = -1;
        }
    }
    void set_stopped() && noexcept
    {
        ++r->signals;
        r->chan = ch_stopped;
    }
    constexpr ex::empty_env get_env() const& noexcept { return {}; }
};

// a sender with an identity; Pad chooses inline (fits 4 pointers together with the impl's vptr) or heap storage
template <int Pad>
struct aleaf
{
    PIKA_STDEXEC_SENDER_CONCEPT
    int id, chan, value, serial;
    char pad[Pad];    // never read
    aleaf(int i, int c, int v) noexcept : id(i), chan(c), value(v), serial(new_serial()) {}
    aleaf(aleaf const& o) noexcept : id(o.id), chan(o.chan), value(o.value), serial(new_serial()) {}
    aleaf(aleaf&& o) noexcept : id(o.id), chan(o.chan), value(o.value), serial(new_serial()) {}
    ~aleaf()
    {
        bool ok = serial > 0 && serial < MAX_SERIAL && alive[serial % MAX_SERIAL];
        verif_assert(ok, "a destructor runs only on a live wrapped sender (never twice, never on raw storage)");
        if (ok) alive[serial] = 0;
    }
    template <template <typename...> class Tuple, template <typename...> class Variant>
    using value_types = Variant<Tuple<int>>;
    template <template <typename...> class Variant>
    using error_types = Variant<std::exception_ptr>;
    static constexpr bool sends_done = true;
    using completion_signatures =
        ex::completion_signatures<ex::set_value_t(int), ex::set_error_t(std::exception_ptr), ex::set_stopped_t()>;

    template <typename R>
    struct op
    {
        std::decay_t<R> r;
        int chan, value;
        void start() & noexcept
        {
            if (chan == ch_value) ex::set_value(std::move(r), value);
            else if (chan == ch_error)
                ex::set_error(std::move(r), std::make_exception_ptr(test_error{value}));
            else
                ex::set_stopped(std::move(r));
        }
    };
    template <typename R>
    op<R> connect(R&& r) const
    {
        verif_assert(serial > 0 && serial < MAX_SERIAL && alive[serial % MAX_SERIAL], "only a live wrapped sender is connected");
        return op<R>{std::forward<R>(r), chan, value};
    }
};
using small_t = aleaf<4>;      // 16 + 4 (+vptr 8) <= 32: embedded storage
using large_t = aleaf<40>;     // heap

#ifdef UNIQUE
using as_t = ex::unique_any_sender<int>;
#else
using as_t = ex::any_sender<int>;
#endif

static as_t* slot[NSLOT];
static int m_id[NSLOT] = {-1, -1, -1};    // -1 no object, 0 empty wrapper, >0 id of the wrapped sender
static int m_chan[NSLOT], m_val[NSLOT];

static void check_all()
{
    int nonempty = 0;
    for (int i = 0; i < NSLOT; ++i)
        if (m_id[i] >= 0)
        {
            verif_assert(slot[i]->empty() == (m_id[i] == 0), "empty() exactly for default-constructed, reset, moved-from and consumed wrappers");
            verif_assert(static_cast<bool>(*slot[i]) == (m_id[i] != 0), "operator bool is the negation of empty()");
            if (m_id[i] > 0) ++nonempty;
        }
    int alive_now = 0;
    for (int k = 1; k < MAX_SERIAL; ++k) alive_now += alive[k];
    verif_assert(alive_now == nonempty, "every wrapped sender is alive exactly while a wrapper holds it (live identities == wrappers holding one)");
}

template <typename S>
static void connect_start_check(S&& s, int id, int chan, int val)
{
    record rec;
    bool thrown = false;
    try
    {
        auto o = ex::connect(std::forward<S>(s), recv{&rec});
        ex::start(o);
    }
    catch (verif_pika_error const& e)
    {
        thrown = e.code == (int) pika::error::bad_function_call;
    }
    if (id == 0)
    {
        verif_assert(thrown && rec.signals == 0, "an empty wrapper raises bad_function_call when connected, and signals nothing");
        return;
    }
    verif_assert(!thrown, "a non-empty wrapper connects and starts");
    verif_assert(rec.signals == 1, "exactly one completion signal through the wrapper");
    verif_assert(rec.chan == chan, "the wrapper completes on the wrapped sender's channel");
    if (chan == ch_value) verif_assert(rec.value == val, "the wrapped sender's value arrives unchanged");
    if (chan == ch_error) verif_assert(rec.err == val, "the wrapped sender's error arrives unchanged");
}

extern "C" void as_main()
{
    for (int step = 0; step < HIST_K; ++step)
    {
        unsigned op = verif_nondet_range(0, 8);
        unsigned i = verif_nondet_range(0, NSLOT - 1), j = verif_nondet_range(0, NSLOT - 1);
        int id = (int) verif_nondet_range(1, 3), chan = (int) verif_nondet_range(0, 2), val = (int) verif_nondet_range(1, 5);
        switch (op)
        {
        case 0:    // construct from a small sender / assign a small sender
            if (m_id[i] < 0) slot[i] = new as_t(small_t(id, chan, val));
            else
                *slot[i] = small_t(id, chan, val);
            m_id[i] = id, m_chan[i] = chan, m_val[i] = val;
            break;
        case 1:    // construct from a large sender / assign a large sender
            if (m_id[i] < 0) slot[i] = new as_t(large_t(id, chan, val));
            else
                *slot[i] = large_t(id, chan, val);
            m_id[i] = id, m_chan[i] = chan, m_val[i] = val;
            break;
        case 2:    // default construct
            verif_assume(m_id[i] < 0);
            slot[i] = new as_t();
            m_id[i] = 0;
            break;
#ifndef UNIQUE
        case 3:    // copy construct / copy assign (self allowed for assignment)
            verif_assume(m_id[j] >= 0);
            if (m_id[i] < 0) slot[i] = new as_t(*slot[j]);
            else
                *slot[i] = *slot[j];
            m_id[i] = m_id[j], m_chan[i] = m_chan[j], m_val[i] = m_val[j];
            break;
        case 7:    // connect an lvalue (a copy of the wrapped sender's behaviour; the wrapper keeps its sender)
            verif_assume(m_id[i] >= 0);
            connect_start_check(*slot[i], m_id[i], m_chan[i], m_val[i]);
            break;
#endif
        case 4:    // move construct / move assign (distinct slots)
            verif_assume(m_id[j] >= 0 && i != j);
            if (m_id[i] < 0) slot[i] = new as_t(std::move(*slot[j]));
            else
                *slot[i] = std::move(*slot[j]);
            m_id[i] = m_id[j], m_chan[i] = m_chan[j], m_val[i] = m_val[j];
            m_id[j] = 0;
            break;
        case 5:    // reset
            verif_assume(m_id[i] >= 0);
            slot[i]->reset();
            m_id[i] = 0;
            break;
        case 6:    // destroy
            verif_assume(m_id[i] >= 0);
            delete slot[i];
            m_id[i] = -1;
            break;
        default:    // connect an rvalue: the wrapper is consumed
            verif_assume(m_id[i] >= 0);
            connect_start_check(std::move(*slot[i]), m_id[i], m_chan[i], m_val[i]);
            m_id[i] = 0;
            break;
        }
        check_all();
    }
    verif_cover(0);
}
