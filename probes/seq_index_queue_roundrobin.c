#include <stdint.h>
#include <assert.h>
typedef struct { uint32_t first, last; } range;
typedef struct { range initial; uint64_t cur; } Q;
Q q;
int budget;  /* remaining visible ops in this context */
#define YIELD(k) do{ if(budget==0){ fr->pc=k; return 1; } budget--; }while(0)
typedef struct { int pc; int right; uint64_t e, d; uint32_t f,l; uint32_t out; int ret; } fr_pop;
static int pop_step(fr_pop* fr){
  switch(fr->pc){ case 0: break; case 1: goto R1; case 2: goto R2; }
  R1: YIELD(1);
  fr->e = q.cur;
  for(;;){
    fr->f=(uint32_t)fr->e; fr->l=(uint32_t)(fr->e>>32);
    if(!(fr->f<fr->l)){ fr->ret=0; return 0; }
    if(fr->right) fr->d=((uint64_t)(fr->l-1)<<32)|fr->f; else fr->d=((uint64_t)fr->l<<32)|(uint64_t)(fr->f+1);
    R2: YIELD(2);
    if(q.cur==fr->e){ q.cur=fr->d; fr->out = fr->right? fr->l-1 : fr->f; fr->ret=1; return 0; }
    else fr->e=q.cur;
  }
}
#ifndef NT
#define NT 3
#endif
#define K 2
typedef struct { int pc; int i; fr_pop c; } fr_worker;
_Bool taken[9]; int ntaken; fr_worker W[NT]; uint32_t got[NT][K]; int ngot[NT]; int done[NT];
_Bool nondet_bool(void); uint32_t nondet_u32(void); unsigned char nondet_uchar(void);
static int worker_step(int t){
  fr_worker* fr=&W[t];
  switch(fr->pc){ case 0: break; case 1: goto R1; }
  for(fr->i=0; fr->i<K; fr->i++){
    fr->c.pc=0; fr->c.right=nondet_bool();
    R1: if(pop_step(&fr->c)){ fr->pc=1; return 1; }
    if(fr->c.ret){ uint32_t v=fr->c.out; assert(v>=q.initial.first && v<q.initial.last); assert(!taken[v-q.initial.first]); taken[v-q.initial.first]=1; ntaken++; }
  }
  return 0;
}
#ifndef ROUNDS
#define ROUNDS 3
#endif
#define CTX(t) if(!done[t]){ unsigned char bb=nondet_uchar(); __CPROVER_assume(bb<=8); budget=bb; if(!worker_step(t)) done[t]=1; }
int main(){
  uint32_t a=nondet_u32(), b=nondet_u32(); __CPROVER_assume(a<=b && b<=8);
  q.initial.first=a;q.initial.last=b;q.cur=((uint64_t)b<<32)|a;
  for(int r=0;r<ROUNDS;r++){
    CTX(0) CTX(1)
#if NT>2
    CTX(2)
#endif
  }
  int alld=1; for(int t=0;t<NT;t++) alld = alld && done[t];
  __CPROVER_assume(alld);   /* only complete executions */
  int total=ntaken;
  uint32_t f=(uint32_t)q.cur,l=(uint32_t)(q.cur>>32); uint32_t rem = f<l? l-f:0;
  assert(rem+total == b-a);
#ifdef WITNESS
  assert(0);
#endif
  return 0;
}
