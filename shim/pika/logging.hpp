// shim (DESIGN 4.1): logging is not the subject of any property; removes spdlog/fmt from the IR
#pragma once
#include <pika/config.hpp>
#define PIKA_LOG(...) ((void) 0)
#define PIKA_LOG_ENABLED(...) false
