#!/bin/sh
# MANIFEST.setup_cmd: offline build of the framework from files on disk.
set -e
cd "$(dirname "$0")/.."
sh tools/ll2c/build.sh
for t in cbmc kissat clang++-14 opt-14 gcc python3; do command -v $t >/dev/null || { echo "missing tool $t"; exit 1; }; done
# generated pika config headers: taken from /repo/_build; if that is absent, run the cmake configure step only
if [ ! -d /repo/_build/libs/pika/config/include ]; then
  mkdir -p .cfg
  (cd .cfg && cmake -G Ninja /repo -DPIKA_WITH_MALLOC=system -DPIKA_WITH_TESTS=OFF -DPIKA_WITH_EXAMPLES=OFF >/dev/null) || { echo "cannot regenerate pika config headers"; exit 1; }
fi
# translator smoke test: tiny kernel through the whole pipeline
mkdir -p .work/selftest
cat > .work/selftest/k.cpp <<'EOK'
#include "verif.h"
#include <atomic>
static std::atomic<int> x;
extern "C" void st_init() {}
extern "C" void st_thread_0() { x.fetch_add(1); }
extern "C" void st_thread_1() { x.fetch_add(2); }
extern "C" void st_final() { verif_assert(x.load() == 3, "sum"); }
EOK
clang++-14 -std=c++20 -O1 -I rt -S -emit-llvm .work/selftest/k.cpp -o .work/selftest/k.ll
.bin/ll2c .work/selftest/k.ll -mode res -prefix st_ -known rt/known_externals.txt -o .work/selftest/k.c
cbmc .work/selftest/k.c -I rt -DVERIF_R=2 --no-standard-checks --unwind 3 --unwindset main.0:4,main.1:4,main.2:4 >/dev/null 2>&1 || { echo "selftest failed"; exit 1; }
rm -rf .work/selftest
echo "setup ok"
