// Environment for the scheduler-level kernels: a scheduling *policy* stub (the queues' own guarantees are
// C17) deriving from the real scheduler_base, used to instantiate the REAL scheduling_loop<Policy>, the real
// set_thread_state/set_active_state, create_work, thread_data and switch_status.
#pragma once
#include "env_pre.hpp"
#include </repo/libs/pika/threading_base/src/thread_data.cpp>
#include </repo/libs/pika/threading_base/src/thread_data_stackless.cpp>
#include </repo/libs/pika/threading_base/src/set_thread_state.cpp>
#include </repo/libs/pika/threading_base/src/create_work.cpp>
#include </repo/libs/pika/threading_base/src/scheduler_base.cpp>
#include </repo/libs/pika/functional/src/basic_function.cpp>
#include </repo/libs/pika/functional/src/empty_function.cpp>
#include </repo/libs/pika/coroutines/src/detail/coroutine_self.cpp>
#include </repo/libs/pika/coroutines/src/thread_enums.cpp>
#include </repo/libs/pika/threading_base/src/scheduler_mode.cpp>
#include <pika/thread_pools/scheduling_loop.hpp>
#include <pika/thread_support/spinlock.hpp>
#include "env_errors.hpp"

namespace pika {
    [[noreturn]] void throw_exception(error e, std::string const&, std::string const&) { verif_detail::throw_exception(e); }
}
namespace pika::detail {
    void spinlock::yield_k(unsigned) noexcept { verif_spin(); }
}
namespace pika::execution::this_thread::detail {
    agent_storage* get_agent_storage() { return nullptr; }
    void yield_k(std::size_t, char const*) { verif_spin(); }    // only handed through to the (shimmed) task call
}
namespace ptd = pika::threads::detail;

#ifndef VERIF_QCAP
#define VERIF_QCAP 6
#endif
#ifndef VERIF_NWORKERS
#define VERIF_NWORKERS 2
#endif

static int verif_all_done;    // set by the scenario when the workers may stop
static int verif_tasks_created, verif_tasks_destroyed;

struct verif_sched final : ptd::scheduler_base
{
    // one shared FIFO of runnable task ids; push/pop are indivisible (no visible operation inside)
    ptd::thread_id_ref_type q[VERIF_QCAP];
    int qn = 0;
    int enqueued_total = 0;

    verif_sched()
      : scheduler_base(VERIF_NWORKERS, "verif_sched", ptd::thread_queue_init_parameters{}, pika::threads::scheduler_mode::default_mode)
    {
    }
    void push(ptd::thread_id_ref_type t)
    {
        verif_assert(qn < VERIF_QCAP, "harness bound: run queue capacity");
        q[qn++] = std::move(t);
        ++enqueued_total;
    }
    // ---- policy interface used by scheduling_loop / set_thread_state / create_work ----
    void create_thread(ptd::thread_init_data& data, ptd::thread_id_ref_type* id, pika::error_code& ec) override
    {
        data.scheduler_base = this;
        ptd::thread_data* td = data.stacksize == pika::execution::thread_stacksize::nostack ?
            ptd::thread_data_stackless::create(data, nullptr, 0x1000) :
            ptd::thread_data_stackful::create(data, nullptr, 0x8000);
        ++verif_tasks_created;
        ptd::thread_id_ref_type r(td, ptd::thread_id_addref::no);
        if (id) *id = r;
        if (data.initial_state == ptd::thread_schedule_state::pending) push(std::move(r));
        if (&ec != &pika::throws) ec = pika::make_success_code();
    }
    bool get_next_thread(std::size_t, bool, ptd::thread_id_ref_type& thrd, bool) override
    {
        if (qn == 0) return false;
        thrd = std::move(q[0]);
        for (int i = 1; i < qn; ++i) q[i - 1] = std::move(q[i]);
        --qn;
        return true;
    }
    void schedule_thread(ptd::thread_id_ref_type thrd, pika::execution::thread_schedule_hint, bool = false, pika::execution::thread_priority = pika::execution::thread_priority::default_) override { push(std::move(thrd)); }
    void schedule_thread_last(ptd::thread_id_ref_type thrd, pika::execution::thread_schedule_hint, bool = false, pika::execution::thread_priority = pika::execution::thread_priority::default_) override { push(std::move(thrd)); }
    void destroy_thread(ptd::thread_data* thrd) override
    {
        ++verif_tasks_destroyed;
        thrd->destroy();
    }
    // idle: one polling step; the scenario tells the workers when they may stop
    bool wait_or_add_new(std::size_t num_thread, bool, std::int64_t&, bool, std::size_t& added) override
    {
        added = 0;
        if (verif_all_done && qn == 0) get_state(num_thread).store(pika::runtime_state::terminating);
        else
            verif_spin();
        return false;
    }
    std::int64_t get_queue_length(std::size_t) const override { return qn; }
    std::int64_t get_thread_count(ptd::thread_schedule_state = ptd::thread_schedule_state::unknown, pika::execution::thread_priority = pika::execution::thread_priority::default_, std::size_t = std::size_t(-1), bool = false) const override { return 0; }
    bool cleanup_terminated(bool) override { return true; }
    bool cleanup_terminated(std::size_t, bool) override { return true; }
    bool is_core_idle(std::size_t) const override { return qn == 0; }
    bool enumerate_threads(pika::util::detail::function<bool(ptd::thread_id_type)> const&, ptd::thread_schedule_state) const override { return true; }
    void abort_all_suspended_threads() override {}
    void on_start_thread(std::size_t) override {}
    void on_stop_thread(std::size_t) override {}
    void on_error(std::size_t, std::exception_ptr const&) override {}
};

// one worker = the real scheduling loop on the stub policy
static void verif_run_worker(verif_sched& s, std::size_t num)
{
    std::int64_t c0 = 0, c1 = 0, c2 = 0, c3 = 0, idle = 0, busy = 0;
    bool active = false;
    ptd::scheduling_counters counters(c0, c1, c2, c3, idle, busy, active);
    ptd::scheduling_callbacks cb(ptd::scheduling_callbacks::callback_type(), ptd::scheduling_callbacks::callback_type(), 1000, 1000);
    s.get_state(num).store(pika::runtime_state::running);
    ptd::scheduling_loop(num, s, counters, cb);
}
