// ll2c: LLVM-14 IR -> C translator for bounded model checking with CBMC.
// Modes: seq (plain C), res (resumable frame functions = own sequentialisation),
//        instr (instrument the IR itself with yield calls for native replay).
#pragma once
#include <llvm/ADT/DenseMap.h>
#include <llvm/ADT/PostOrderIterator.h>
#include <llvm/IR/CFG.h>
#include <llvm/Analysis/LoopInfo.h>
#include <llvm/IR/Dominators.h>
#include <llvm/ADT/SmallPtrSet.h>
#include <llvm/ADT/StringExtras.h>
#include <llvm/Demangle/Demangle.h>
#include <llvm/IR/Constants.h>
#include <llvm/IR/DataLayout.h>
#include <llvm/IR/IRBuilder.h>
#include <llvm/IR/InlineAsm.h>
#include <llvm/IR/InstIterator.h>
#include <llvm/IR/Instructions.h>
#include <llvm/IR/IntrinsicInst.h>
#include <llvm/IR/LLVMContext.h>
#include <llvm/IR/Module.h>
#include <llvm/IR/Operator.h>
#include <llvm/IR/Verifier.h>
#include <llvm/IRReader/IRReader.h>
#include <llvm/Support/CommandLine.h>
#include <llvm/Support/SourceMgr.h>
#include <llvm/Support/raw_ostream.h>

#include <map>
#include <set>
#include <sstream>
#include <string>
#include <vector>

using namespace llvm;

[[noreturn]] void die(const std::string& msg);

struct Ctx
{
    Module& M;
    const DataLayout& DL;
    bool res = false;    // resumable mode
    bool exprInline = true;    // fold single-use pure instructions into their user
    bool flat = false;   // res mode layout: guarded segments in a re-run loop (see emit.cpp)
    bool chain = false;  // res mode layout: skip chain (Lazy-CSeq style) instead of early returns
    std::string prefix;  // root prefix

    // reachability
    std::vector<Function*> funcs;    // reachable defined functions (ordered)
    std::set<Function*> reachF;      // reachable (defined or declared)
    std::vector<GlobalVariable*> globals;
    std::set<GlobalVariable*> reachG;
    std::set<Function*> addrTaken;
    std::set<Function*> resumable;
    std::set<Function*> skipCalls;
    // pointer buffers: byte arrays [N x i8] (N % 8 == 0) inside the SBO storage of type-erased wrappers are emitted as arrays of N/8
    // pointers, so that pointers stored in them keep their points-to sets in CBMC (same layout; other accesses go through casts)
    std::vector<std::string> ptrBufOwners;                       // substrings of owner struct names (-ptrbuf)
    std::set<std::pair<StructType*, unsigned>> ptrBuf;           // (struct, field index) whose type is such a byte array
    void computePtrBufs();
    bool isPtrBuf(StructType* S, unsigned k) const { return ptrBuf.count({S, k}) != 0; }
    std::vector<std::string> opaquePrefixes;    // defined functions treated as environment (formatting)
    bool isExt(const Function* F) const
    {
        if (F->isDeclaration()) return true;
        for (auto& p : opaquePrefixes)
            if (F->getName().startswith(p)) return true;
        return false;
    }    // dynamic initialisers irrelevant to the scenario

    // names
    DenseMap<Type*, std::string> tyNames;
    std::vector<StructType*> structTys;
    std::vector<Type*> arrayTys;    // ArrayType / FixedVectorType
    std::vector<FunctionType*> fnTys;
    DenseMap<const GlobalValue*, std::string> gvNames;
    std::set<std::string> usedNames;
    std::map<const GlobalVariable*, int> typeIds;    // typeinfo numbering
    std::set<Function*> usedExternals;

    Ctx(Module& m)
      : M(m)
      , DL(m.getDataLayout())
    {
    }

    std::string ty(Type* T);
    std::string gname(const GlobalValue* G);
    std::string cexpr(Constant* C);       // constant as C expression
    std::string cinit(Constant* C);       // constant as C initializer
    std::string pureExpr(unsigned opc, User* U, std::function<std::string(Value*)> val);
    std::string gepExpr(GEPOperator* G, std::function<std::string(Value*)> val);
    std::string zeroOf(Type* T);
    int typeIdFor(Value* ti);
    std::vector<Function*> indirectTargets(CallBase* CB);    // possible defined targets of an indirect call
    void emitTypeDecls(raw_ostream& os);
};

unsigned containerBits(unsigned n);
std::string uty(unsigned n);
std::string sty(unsigned n);
std::string maskTo(unsigned n, const std::string& e);
std::string sextOf(unsigned n, const std::string& e);
bool isVisibleInst(const Instruction& I);
extern bool gRefcountMovers;    // opt-in reduction: reference-count style +-1 RMWs are not context-switch points
bool compatibleFT(FunctionType* A, FunctionType* B);
std::string sanitize(StringRef s);
