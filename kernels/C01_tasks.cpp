// C01 — every task runs exactly once, on one worker at a time: two real scheduling loops (scheduling_loop<Policy>,
// switch_status, thread_data state word) drain a symbolic task program over the stub policy (env_sched.hpp).
// Task program: NTASKS tasks; each phase nondeterministically asks for pending (yield), pending_boost, or
// terminated (bounded by MAXPH phases); the stub policy may also hand out a task id twice (stale entry), which
// the real queues allow and switch_status exists to tolerate.
#include "env_sched.hpp"

#ifndef NTASKS
#define NTASKS 2
#endif
#ifndef MAXPH
#define MAXPH 2
#endif

static verif_sched* sched;
static ptd::thread_data* task[NTASKS];
static int in_body[NTASKS], phases[NTASKS], completed[NTASKS], ndone;

static ptd::thread_result_type idle_fn(ptd::thread_restart_state) { return ptd::thread_result_type(ptd::thread_schedule_state::terminated, ptd::invalid_thread_id); }

ptd::thread_result_type verif_task_phase(ptd::thread_data_stackful* t, ptd::thread_restart_state)
{
    int k = t->program_;
    verif_assert(in_body[k] == 0, "a task never executes on two workers at once");
    verif_assert(!completed[k], "no phase of a task runs after it terminated");
    ++in_body[k];
    verif_yield();    // the body takes time: another worker may look at the same task meanwhile
    ptd::thread_result_type r(ptd::thread_schedule_state::terminated, ptd::invalid_thread_id);
    ++phases[k];
    if (phases[k] < MAXPH)
    {
        unsigned c = verif_nondet_range(0, 2);
        if (c == 0) r.first = ptd::thread_schedule_state::pending;
        else if (c == 1)
            r.first = ptd::thread_schedule_state::pending_boost;
    }
    if (r.first == ptd::thread_schedule_state::terminated)
    {
        completed[k] = 1;
        if (++ndone == NTASKS) verif_all_done = 1;
    }
    --in_body[k];
    return r;
}

extern "C" void tk_init()
{
    sched = new verif_sched();
    for (int k = 0; k < NTASKS; ++k)
    {
        ptd::thread_init_data d(&idle_fn, "task");
        ptd::thread_id_ref_type id;
        pika::error_code ec(pika::throwmode::lightweight);
        sched->create_thread(d, &id, ec);
        task[k] = ptd::get_thread_id_data(id);
        static_cast<ptd::thread_data_stackful*>(task[k])->program_ = k;
    }
    // a stale duplicate entry for task 0 (a thread id queued twice)
    if (verif_nondet_range(0, 1)) sched->push(ptd::thread_id_ref_type(task[0]));
}
extern "C" void tk_thread_0() { verif_run_worker(*sched, 0); }
extern "C" void tk_thread_1() { verif_run_worker(*sched, 1); }
extern "C" void tk_final()
{
    for (int k = 0; k < NTASKS; ++k)
    {
        verif_assert(completed[k] == 1, "every submitted task ran to completion exactly once");
        verif_assert(phases[k] >= 1 && phases[k] <= MAXPH, "a task's body was entered at least once and never more often than its program has phases");
    }
    verif_cover(0);
}
