#include <assert.h>
#ifndef NT
#define NT 2
#endif
#ifndef ROUNDS
#define ROUNDS 3
#endif
typedef struct entry { int ctx; struct entry* next; } entry;
struct { _Bool v; } spin;
struct { int owner; entry *head, *tail; } m;
entry E[NT]; _Bool token[NT]; int in_cs, cs_count; int done[NT]; int blocked[NT];
int budget;
typedef struct { int pc; entry* e; int ctx; } frame; frame F[NT];
unsigned char nondet_uchar(void);
#define YIELD(k) R##k: if(budget==0){fr->pc=k;return 1;} budget--;
#define SPINLOCK(k) R##k: if(budget==0){fr->pc=k;return 1;} budget--; if(spin.v){ fr->pc=k; budget=0; return 1; } spin.v=1;
#define SPINUNLOCK(k) YIELD(k) spin.v=0;
#define BLOCK(k,c) R##k: if(!(c)){fr->pc=k; blocked[t]=1; budget=0; return 1;} blocked[t]=0; if(budget==0){fr->pc=k;return 1;} budget--;
static int thread_step(int t){
  frame* fr=&F[t];
  switch(fr->pc){case 0: break; case 1: goto R1; case 2: goto R2; case 3: goto R3; case 4: goto R4; case 5: goto R5; case 6: goto R6; case 7: goto R7; case 8: goto R8;}
  SPINLOCK(1)
  while(m.owner!=0){
    E[t].ctx=t+1; E[t].next=0; if(m.tail) m.tail->next=&E[t]; else m.head=&E[t]; m.tail=&E[t];
    SPINUNLOCK(2)
    BLOCK(3, token[t]) token[t]=0;
    SPINLOCK(4)
    if(E[t].ctx){ /* erase (timeout path; unreachable here) */ assert(0); }
  }
  m.owner=t+1;
  SPINUNLOCK(5)
  in_cs++; assert(in_cs==1); cs_count++;
  YIELD(6)
  in_cs--;
  SPINLOCK(7)
#ifdef BUG
  if(m.owner==t+1) {
#endif
  m.owner=0;
  if(m.head){ fr->e=m.head; fr->ctx=fr->e->ctx; fr->e->ctx=0; m.head=fr->e->next; if(!m.head) m.tail=0; token[fr->ctx-1]=1; }
#ifdef BUG
  }
#endif
  SPINUNLOCK(8)
  return 0;
}
#define CTX(t) if(!done[t]){ unsigned char bb=nondet_uchar(); __CPROVER_assume(bb<=6); budget=bb; if(!thread_step(t)) done[t]=1; }
int main(){
  for(int r=0;r<ROUNDS;r++){ CTX(0) CTX(1)
#if NT>2
  CTX(2)
#endif
  }
  int alld=1, stuck=1; for(int t=0;t<NT;t++){ alld=alld&&done[t]; if(!done[t] && !(blocked[t] && !token[t])) stuck=0; }
  /* stuck: every unfinished thread is blocked with no token => lost wakeup */
  assert(alld || !stuck);
  if(alld){ assert(cs_count==NT); assert(m.owner==0 && m.head==0); }
#ifdef WITNESS
  __CPROVER_assume(alld); assert(0);
#endif
  return 0;
}
