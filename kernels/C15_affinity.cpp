// C15 — worker -> PU binding: the four real decode_*_distribution functions + check_num_threads
// (parse_affinity_options.cpp) over a symbolic machine.  hwloc (topology.cpp) is the environment: the
// topology member functions used by the decoder are defined here over the symbolic machine description.
// Mask representation: the 64-bit configuration (PIKA_HAVE_MAX_CPU_COUNT=64).
#include "env_pre.hpp"
// every header the code under test includes is included FIRST (real std::vector in their declarations); then std::vector is
// replaced by the fixed-capacity stand-in for the body of parse_affinity_options.cpp and for this kernel (env_fixed_vector.hpp)
#include <pika/affinity/parse_affinity_options.hpp>
#include <pika/assert.hpp>
#include <pika/modules/errors.hpp>
#include <pika/topology/topology.hpp>
#include <hwloc.h>
#include <algorithm>
#include <cmath>
#include <cstddef>
#include <cstdint>
#include <string>
#include <tuple>
#include <vector>
#include "env_errors.hpp"
#include "env_fixed_vector.hpp"
#include </repo/libs/pika/affinity/src/parse_affinity_options.cpp>
#include "env_errors.hpp"

// ---- symbolic machine ---------------------------------------------------------------------------------
static std::size_t m_sockets, m_cores, m_pus;
static std::size_t m_socket_cores[3], m_core_pus[4], m_core_base[4];
static std::uint64_t m_proc_mask;

namespace pika::threads::detail {
    std::size_t topology::get_number_of_sockets() const { return m_sockets; }
    std::size_t topology::get_number_of_cores() const { return m_cores; }
    std::size_t topology::get_number_of_socket_cores(std::size_t s) const { return s < m_sockets ? m_socket_cores[s] : 0; }
    std::size_t topology::get_number_of_core_pus(std::size_t c) const { return m_core_pus[c % m_cores]; }
    std::size_t topology::get_pu_number(std::size_t c, std::size_t p, error_code&) const
    {
        c %= m_cores;
        return m_core_base[c] + p % m_core_pus[c];
    }
    mask_type topology::get_cpubind_mask_main_thread(error_code&) const { return m_proc_mask; }
    mask_type topology::init_thread_affinity_mask(std::size_t c, std::size_t p) const
    {
        c %= m_cores;
        return std::uint64_t(1) << (m_core_base[c] + p % m_core_pus[c]);
    }
    unsigned int hardware_concurrency() noexcept { return (unsigned) m_pus; }
}    // namespace pika::threads::detail

alignas(64) static unsigned char topo_storage[sizeof(pika::threads::detail::topology)];

extern "C" void aff_main()
{
    using namespace pika::detail;
    // the machine shape is a parameter of the query (concrete loop bounds); process mask, thread count and
    // use of the mask stay symbolic
    m_sockets = (std::size_t) verif_param(1);
    m_cores = 0;
    m_pus = 0;
    // params 2/3 < 10: the same count everywhere; >= 10: one decimal digit per socket / per core (asymmetric machines)
    std::size_t p2 = (std::size_t) verif_param(2), p3 = (std::size_t) verif_param(3);
    std::size_t p3digits[4] = {p3 / 1000 % 10, p3 / 100 % 10, p3 / 10 % 10, p3 % 10};
    std::size_t nd3 = p3 >= 1000 ? 4 : p3 >= 100 ? 3 : p3 >= 10 ? 2 : 1;
    for (std::size_t s = 0; s < m_sockets; ++s)
    {
        m_socket_cores[s] = p2 < 10 ? p2 : (s == 0 ? p2 / 10 : p2 % 10);
        for (std::size_t c = 0; c < m_socket_cores[s]; ++c)
        {
            m_core_pus[m_cores] = p3 < 10 ? p3 : p3digits[4 - nd3 + m_cores];
            m_core_base[m_cores] = m_pus;
            m_pus += m_core_pus[m_cores];
            ++m_cores;
        }
    }
    std::uint64_t all = (std::uint64_t(1) << m_pus) - 1;
    m_proc_mask = verif_nondet_u64() & all;
    verif_assume(m_proc_mask != 0);
    bool use_mask = verif_nondet_range(0, 1);
    std::size_t nthreads = verif_nondet_range(1, (unsigned) m_pus + 1);
    distribution_type d = static_cast<distribution_type>(verif_param(0));
    auto& topo = *reinterpret_cast<pika::threads::detail::topology*>(topo_storage);

    std::vector<pika::threads::detail::mask_type> aff;
    std::vector<std::size_t> pus;
    std::size_t effective = use_mask ? (std::size_t) __builtin_popcountll(m_proc_mask) : m_pus;
    bool rejected = false;
    try
    {
        decode_distribution(d, topo, aff, 0, m_cores, nthreads, pus, use_mask, pika::throws);
    }
    catch (verif_pika_error const& e)
    {
        rejected = true;
        verif_assert(e.code == (int) pika::error::bad_parameter, "rejection uses bad_parameter");
    }
    if (nthreads > effective)
    {
        verif_assert(rejected, "more threads than processing units in the effective mask is rejected, not silently oversubscribed");
        return;
    }
    verif_assert(!rejected, "a satisfiable request is accepted");
    if (rejected) return;
    std::uint64_t seen = 0;
    for (std::size_t i = 0; i < nthreads; ++i)
    {
        std::uint64_t mk = aff[i];
        verif_assert(mk != 0 && (mk & (mk - 1)) == 0, "each worker is bound to exactly one processing unit");
        verif_assert((mk & ~(use_mask ? m_proc_mask : all)) == 0, "the processing unit lies inside the effective process mask");
        verif_assert((mk & seen) == 0, "two workers never share a processing unit");
        seen |= mk;
        verif_assert(mk == (std::uint64_t(1) << pus[i]), "the reported PU number is the PU the worker is bound to");
    }
    verif_cover(0);
}
