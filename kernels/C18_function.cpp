// C18 — pika::util::detail::function / unique_function (real basic_function.cpp, vtables, SBO storage):
// symbolic histories of construct/copy/move/assign/swap/reset/invoke against a reference model, with a
// construction/destruction ledger of the wrapped objects.
#include "env_pre.hpp"
#include </repo/libs/pika/functional/src/basic_function.cpp>
#include </repo/libs/pika/functional/src/empty_function.cpp>
#include <pika/functional/function.hpp>
#include <pika/functional/unique_function.hpp>
#include "env_errors.hpp"

namespace pika {
    [[noreturn]] void throw_exception(error e, std::string const&, std::string const&) { verif_detail::throw_exception(e); }
}

#ifndef HIST_K
#define HIST_K 4
#endif
#define NSLOT 3

static int live_payloads, ctor_total, dtor_total;
// identity ledger: every wrapped object carries a serial number (it survives the memcpy relocation of inline targets); a destructor
// must find its serial alive.  A counter alone is fooled when a destructor runs on raw storage AND another object leaks (seed C18-copyassign).
#define MAX_SERIAL 24
static int next_serial;
static unsigned char alive[MAX_SERIAL];
static int new_serial()
{
    verif_assert(next_serial + 1 < MAX_SERIAL, "encoding bound: more wrapped objects constructed than the ledger holds");
    verif_assume(next_serial + 1 < MAX_SERIAL);
    alive[++next_serial] = 1;
    ++live_payloads;
    ++ctor_total;
    return next_serial;
}

template <int Pad>
struct payload
{
    int id;
    mutable int calls = 0;
    int serial;
    char pad[Pad];    // never read
    explicit payload(int i) noexcept : id(i), serial(new_serial()) {}
    payload(payload const& o) noexcept : id(o.id), calls(o.calls), serial(new_serial()) {}
    payload(payload&& o) noexcept : id(o.id), calls(o.calls), serial(new_serial()) {}
    ~payload()
    {
        bool ok = serial > 0 && serial < MAX_SERIAL && alive[serial % MAX_SERIAL];
        verif_assert(ok, "a destructor runs only on a live wrapped object (never twice, never on raw storage)");
        if (ok) alive[serial] = 0;
        --live_payloads;
        ++dtor_total;
    }
    int operator()(int x) const
    {
        verif_assert(serial > 0 && serial < MAX_SERIAL && alive[serial % MAX_SERIAL], "only a live wrapped object is invoked");
        return id * 100 + (++calls) * 10 + x;
    }
};
using small_t = payload<4>;      // fits the 3-pointer inline buffer
using large_t = payload<40>;     // larger than the inline buffer -> heap

#ifdef UNIQUE
using fn_t = pika::util::detail::unique_function<int(int)>;
#else
using fn_t = pika::util::detail::function<int(int)>;
#endif

static fn_t* slot[NSLOT];
static int m_id[NSLOT] = {-1, -1, -1};    // -1 no object, 0 empty wrapper, >0 payload id
static int m_calls[NSLOT];

static void check_all()
{
    int nonempty = 0;
    for (int i = 0; i < NSLOT; ++i)
        if (m_id[i] >= 0)
        {
            verif_assert(slot[i]->empty() == (m_id[i] == 0), "empty() exactly for default-constructed, reset and moved-from wrappers");
            verif_assert(static_cast<bool>(*slot[i]) == (m_id[i] != 0), "operator bool is the negation of empty()");
            if (m_id[i] > 0) ++nonempty;
        }
    int alive_now = 0;
    for (int k = 1; k < MAX_SERIAL; ++k) alive_now += alive[k];
    verif_assert(alive_now == nonempty, "every contained object is alive exactly while a wrapper holds it (live identities == wrappers holding one)");
}

extern "C" void fn_main()
{
    for (int step = 0; step < HIST_K; ++step)
    {
        unsigned op = verif_nondet_range(0, 8);
        unsigned i = verif_nondet_range(0, NSLOT - 1), j = verif_nondet_range(0, NSLOT - 1);
        int id = (int) verif_nondet_range(1, 3);
        switch (op)
        {
        case 0:    // construct from a small payload
            verif_assume(m_id[i] < 0);
            slot[i] = new fn_t(small_t(id));
            m_id[i] = id, m_calls[i] = 0;
            break;
        case 1:    // construct from a large payload
            verif_assume(m_id[i] < 0);
            slot[i] = new fn_t(large_t(id));
            m_id[i] = id, m_calls[i] = 0;
            break;
        case 2:    // default construct
            verif_assume(m_id[i] < 0);
            slot[i] = new fn_t();
            m_id[i] = 0, m_calls[i] = 0;
            break;
#ifndef UNIQUE
        case 3:    // copy construct / copy assign (self allowed for assignment)
            verif_assume(m_id[j] >= 0);
            if (m_id[i] < 0) slot[i] = new fn_t(*slot[j]);
            else
                *slot[i] = *slot[j];
            m_id[i] = m_id[j], m_calls[i] = m_calls[j];
            break;
#endif
        case 4:    // move construct / move assign (distinct slots)
            verif_assume(m_id[j] >= 0 && i != j);
            if (m_id[i] < 0) slot[i] = new fn_t(std::move(*slot[j]));
            else
                *slot[i] = std::move(*slot[j]);
            m_id[i] = m_id[j], m_calls[i] = m_calls[j];
            m_id[j] = 0, m_calls[j] = 0;
            break;
        case 5:    // swap
            verif_assume(m_id[i] >= 0 && m_id[j] >= 0);
            slot[i]->swap(*slot[j]);
            {
                int a = m_id[i], b = m_calls[i];
                m_id[i] = m_id[j], m_calls[i] = m_calls[j];
                m_id[j] = a, m_calls[j] = b;
            }
            break;
        case 6:    // reset
            verif_assume(m_id[i] >= 0);
            slot[i]->reset();
            m_id[i] = 0, m_calls[i] = 0;
            break;
        case 7:    // destroy
            verif_assume(m_id[i] >= 0);
            delete slot[i];
            m_id[i] = -1;
            break;
        default:    // invoke
            verif_assume(m_id[i] >= 0);
            {
                int x = (int) verif_nondet_range(0, 9);
                if (m_id[i] == 0)
                {
                    bool thrown = false;
                    try
                    {
                        (*slot[i])(x);
                    }
                    catch (verif_pika_error const& e)
                    {
                        thrown = e.code == (int) pika::error::bad_function_call;
                    }
                    verif_assert(thrown, "an empty wrapper raises bad_function_call when invoked");
                }
                else
                {
                    int r = (*slot[i])(x);
                    ++m_calls[i];
                    verif_assert(r == m_id[i] * 100 + m_calls[i] * 10 + x,
                        "the wrapper returns what the wrapped callable returns; copies are independent objects");
                }
            }
            break;
        }
        check_all();
    }
    verif_cover(0);
}
