int g;
void set(int*p){ *p=1; }
void w(void){ int e; set(&e); g=e; }
int main(){ __CPROVER_ASYNC_1: w(); __CPROVER_ASYNC_2: w(); return 0;}
