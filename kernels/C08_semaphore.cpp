// C08 — counting_semaphore / binary_semaphore (real detail/counting_semaphore.cpp over the real
// detail/condition_variable.cpp), sliding_semaphore in C08_sliding.cpp.
#include "env_pre.hpp"
#include </repo/libs/pika/synchronization/src/detail/condition_variable.cpp>
#include </repo/libs/pika/synchronization/src/detail/counting_semaphore.cpp>
#include <pika/synchronization/counting_semaphore.hpp>
#include "env_sync.hpp"

#ifndef NOPS
#define NOPS 2
#endif

static pika::counting_semaphore<>* sem;
static long permits;                         // ghost ledger: initial + released - acquired
static int in_acquire[VERIF_MAX_SLOTS];      // ghost: thread is inside a blocking acquire
static int acquired_total, released_total, released_done, initial;

extern "C" void csem_init()
{
    initial = (int) verif_nondet_range(0, 2);
    permits = initial;
    sem = new pika::counting_semaphore<>(initial);
}

static void op()
{
    int t = verif_tid();
    unsigned kind = verif_nondet_range(0, 3);
    if (kind == 0)
    {
        in_acquire[t] = 1;
        sem->acquire();
        in_acquire[t] = 0;
        --permits;
        ++acquired_total;
        verif_assert(permits >= 0, "acquisitions never exceed initial + released permits");
    }
    else if (kind == 1)
    {
        bool ok = sem->try_acquire();
        if (ok)
        {
            --permits;
            ++acquired_total;
            verif_assert(permits >= 0, "try_acquire true only if a permit existed");
        }
    }
    else if (kind == 2)
    {
        verif_deadline_passed[t] = 0;
        bool ok = sem->try_acquire_until(pika::chrono::steady_time_point(std::chrono::steady_clock::time_point{}));
        if (ok)
        {
            --permits;
            ++acquired_total;
            verif_assert(permits >= 0, "timed acquire true only if a permit existed");
        }
        else
            // false before the deadline is acceptable only if no fully released permit was left for it (a stale
            // wake-up may end the wait early, as in the real runtime; it must not make the call miss a permit)
            verif_assert(verif_deadline_passed[t] || initial + released_done - acquired_total <= 0,
                "timed acquire returns false only after its deadline or when no released permit is available (a permit released before the deadline is consumed)");
    }
    else
    {
        unsigned n = verif_nondet_range(1, 2);
        permits += n;
        released_total += n;
        sem->release(n);
        released_done += n;
    }
}
static void worker()
{
    for (int i = 0; i < NOPS; ++i) op();
}
extern "C" void csem_thread_0() { worker(); }
extern "C" void csem_thread_1() { worker(); }
#if NTHREADS > 2
extern "C" void csem_thread_2() { worker(); }
#endif
// quiescent but unfinished: legitimate only if the blocked acquirers have no permit to take
extern "C" void csem_stuck()
{
    verif_assert(permits <= 0, "no acquirer stays blocked while permits are available (no lost release)");
}
extern "C" void csem_final()
{
    int n = 0;
    while (n < 12 && sem->try_acquire()) ++n;
    verif_assert(n == permits, "conservation: remaining permits == initial + released - acquired");
    verif_cover(0);
}

// ---- directed: two blocked acquirers, one release(2): both must get through ---------------------------------
extern "C" void csem3_init()
{
    initial = 0;
    permits = 0;
    sem = new pika::counting_semaphore<>(0);
}
static void acquirer()
{
    int t = verif_tid();
    in_acquire[t] = 1;
    sem->acquire();
    in_acquire[t] = 0;
    --permits;
    verif_assert(permits >= 0, "acquisitions never exceed initial + released permits");
}
extern "C" void csem3_thread_0() { acquirer(); }
extern "C" void csem3_thread_1() { acquirer(); }
extern "C" void csem3_thread_2()
{
    permits += 2;
    sem->release(2);
}
extern "C" void csem3_stuck() { verif_assert(permits <= 0, "no acquirer stays blocked while permits are available (no lost release)"); }
extern "C" void csem3_final()
{
    verif_assert(permits == 0 && !sem->try_acquire(), "both permits of release(2) were consumed by the two acquirers");
    verif_cover(0);
}
