// C17 — contiguous_index_queue: real pop_left/pop_right/reset/empty.
#include <pika/concurrency/detail/contiguous_index_queue.hpp>
#include "env.hpp"

using queue_t = pika::concurrency::detail::contiguous_index_queue<std::uint32_t>;

// ---- sequential, full 32-bit width: order per end, nothing invented, wrap-free at the ends --------
extern "C" void seq_main()
{
    std::uint32_t a = verif_nondet_u32(), b = verif_nondet_u32();
    verif_assume(a <= b);
    queue_t q(a, b);
    std::uint32_t lo = a, hi = b;    // reference model: remaining interval [lo,hi)
    for (int i = 0; i < 4; ++i)
    {
        bool left = verif_nondet_range(0, 1);
        auto r = left ? q.pop_left() : q.pop_right();
        if (lo >= hi)
        {
            verif_assert(!r.has_value(), "pop on empty queue returns nullopt");
            verif_assert(q.empty(), "empty() true when nothing is left");
        }
        else
        {
            verif_assert(r.has_value(), "pop on a non-empty quiescent queue succeeds");
            if (left)
            {
                verif_assert(*r == lo, "left pops ascend from first");
                ++lo;
            }
            else
            {
                verif_assert(*r == hi - 1, "right pops descend from last-1");
                --hi;
            }
        }
        verif_assert(q.empty() == (lo >= hi), "empty() agrees with the reference interval");
    }
}

// ---- concurrent: T threads x K pops, symbolic small range, exactly-once ledger ------------------
#ifndef NPOPS
#define NPOPS 2
#endif
static queue_t cq;
static std::uint32_t ca, cb;
static unsigned char taken[16];
static int npopped, nfail;

extern "C" void conc_init()
{
    ca = verif_nondet_range(0, 4);
    std::uint32_t len = verif_nondet_range(0, 4);
    cb = ca + len;
    cq.reset(ca, cb);
}
static void worker()
{
    for (int i = 0; i < NPOPS; ++i)
    {
        bool left = verif_nondet_range(0, 1);
        auto r = left ? cq.pop_left() : cq.pop_right();
        if (r)
        {
            verif_assert(*r >= ca && *r < cb, "popped index lies in the initial range (nothing invented)");
            verif_assert(!taken[*r - ca], "index popped at most once");
            taken[*r - ca] = 1;
            ++npopped;
        }
        else
            ++nfail;
    }
}
extern "C" void conc_thread_0() { worker(); }
extern "C" void conc_thread_1() { worker(); }
#if NTHREADS > 2
extern "C" void conc_thread_2() { worker(); }
#endif
extern "C" void conc_final()
{
    // quiescent: remaining + popped == initial; a failed pop implies the queue was drained
    std::uint32_t remaining = 0;
    while (cq.pop_left()) ++remaining;
    verif_assert(remaining + npopped == cb - ca, "exactly once: remaining + popped == initial");
    if (nfail > 0) verif_assert(remaining == 0, "a pop only fails on an empty queue");
    verif_cover(0);
}
