// C03 — sender adaptors: each real adaptor is instantiated on a test leaf sender whose completion channel
// (value / error / stopped) is symbolic, connected to a recording receiver, and compared with the completion
// the composition denotes (differential oracle).  Sequential scenarios complete inline in start().
#include "env_pre.hpp"
#include <pika/execution/algorithms/drop_operation_state.hpp>
#include <pika/execution/algorithms/drop_value.hpp>
#include <pika/execution/algorithms/ensure_started.hpp>
#include <pika/execution/algorithms/just.hpp>
#include <pika/execution/algorithms/let_error.hpp>
#include <pika/execution/algorithms/let_value.hpp>
#include <pika/execution/algorithms/split.hpp>
#include <pika/execution/algorithms/split_tuple.hpp>
#include <pika/execution/algorithms/start_detached.hpp>
#include <pika/execution/algorithms/then.hpp>
#include <pika/execution/algorithms/unpack.hpp>
#include <pika/execution/algorithms/when_all.hpp>
#include </repo/libs/pika/functional/src/basic_function.cpp>
#include </repo/libs/pika/functional/src/empty_function.cpp>
#include "env_sync.hpp"
namespace pika {
    [[noreturn]] void throw_exception(error e, std::string const&, std::string const&) { verif_detail::throw_exception(e); }
}

namespace ex = pika::execution::experimental;

enum channel
{
    ch_value = 0,
    ch_error = 1,
    ch_stopped = 2
};
struct test_error
{
    int code;
};

// ---- recording receiver ------------------------------------------------------------------------------------
struct record
{
    int signals = 0, chan = -1, value = 0, value2 = 0, err = 0;
};
static int leaf_started[4];

template <typename... Ts>
struct recv
{
    PIKA_STDEXEC_RECEIVER_CONCEPT
    record* r;
    void set_value() && noexcept
    {
        ++r->signals;
        r->chan = ch_value;
    }
    void set_value(int v) && noexcept
    {
        ++r->signals;
        r->chan = ch_value;
        r->value = v;
    }
    void set_value(int v, int w) && noexcept
    {
        ++r->signals;
        r->chan = ch_value;
        r->value = v;
        r->value2 = w;
    }
    void set_error(std::exception_ptr e) && noexcept
    {
        ++r->signals;
        r->chan = ch_error;
        try
        {
            std::rethrow_exception(e);
        }
        catch (test_error const& t)
        {
            r->err = t.code;
        }
        catch (...)
        {
            r->err = -1;
        }
    }
    void set_stopped() && noexcept
    {
        ++r->signals;
        r->chan = ch_stopped;
    }
    constexpr ex::empty_env get_env() const& noexcept { return {}; }
};

// ---- leaf sender: completes inline in start() on the channel chosen for it --------------------------------
struct leaf
{
    PIKA_STDEXEC_SENDER_CONCEPT
    int id, chan, value;
    template <template <typename...> class Tuple, template <typename...> class Variant>
    using value_types = Variant<Tuple<int>>;
    template <template <typename...> class Variant>
    using error_types = Variant<std::exception_ptr>;
    static constexpr bool sends_done = true;
    using completion_signatures =
        ex::completion_signatures<ex::set_value_t(int), ex::set_error_t(std::exception_ptr), ex::set_stopped_t()>;

    template <typename R>
    struct op
    {
        std::decay_t<R> r;
        int id, chan, value;
        void start() & noexcept
        {
            ++leaf_started[id];
            if (chan == ch_value) ex::set_value(std::move(r), value);
            else if (chan == ch_error)
                ex::set_error(std::move(r), std::make_exception_ptr(test_error{value}));
            else
                ex::set_stopped(std::move(r));
        }
    };
    template <typename R>
    op<R> connect(R&& r) const
    {
        return op<R>{std::forward<R>(r), id, chan, value};
    }
};
static leaf mk(int id)
{
    return leaf{id, (int) verif_nondet_range(0, 2), (int) verif_nondet_range(1, 5)};
}

// ---- then ---------------------------------------------------------------------------------------------------
extern "C" void then_main()
{
    leaf l = mk(0);
    bool throws = verif_nondet_range(0, 1);
    record rec;
    auto s = ex::then(l, [throws](int x) {
        if (throws) throw test_error{77};
        return x + 100;
    });
    auto o = ex::connect(std::move(s), recv<>{&rec});
    ex::start(o);
    verif_assert(rec.signals == 1, "exactly one completion signal");
    verif_assert(leaf_started[0] == 1, "the predecessor is started exactly once");
    if (l.chan == ch_value && !throws) verif_assert(rec.chan == ch_value && rec.value == l.value + 100, "then: value is f(value)");
    else if (l.chan == ch_value)
        verif_assert(rec.chan == ch_error && rec.err == 77, "then: an exception thrown by f arrives as that error");
    else if (l.chan == ch_error)
        verif_assert(rec.chan == ch_error && rec.err == l.value, "then: an upstream error is forwarded unchanged");
    else
        verif_assert(rec.chan == ch_stopped, "then: upstream stopped is forwarded");
    verif_cover(0);
}

// ---- let_value / let_error ---------------------------------------------------------------------------------
extern "C" void let_main()
{
    leaf l = mk(0), l2 = mk(1);
    record rec;
    bool throws = verif_nondet_range(0, 1);
    auto s = ex::let_value(l, [l2, throws](int& x) {
        if (throws) throw test_error{55};
        leaf n = l2;
        n.value += x;
        return n;
    });
    auto o = ex::connect(std::move(s), recv<>{&rec});
    ex::start(o);
    verif_assert(rec.signals == 1, "exactly one completion signal");
    if (l.chan == ch_value && throws)
    {
        verif_assert(rec.chan == ch_error && rec.err == 55, "let_value: an exception thrown by f arrives as that error");
        verif_assert(leaf_started[1] == 0, "let_value: no successor is started when f throws");
    }
    else if (l.chan == ch_value)
    {
        verif_assert(leaf_started[1] == 1, "let_value: the successor sender is started exactly once");
        if (l2.chan == ch_value) verif_assert(rec.chan == ch_value && rec.value == l.value + l2.value, "let_value: completes with the successor's value");
        else if (l2.chan == ch_error)
            verif_assert(rec.chan == ch_error && rec.err == l.value + l2.value, "let_value: successor error is forwarded");
        else
            verif_assert(rec.chan == ch_stopped, "let_value: successor stopped is forwarded");
    }
    else
    {
        verif_assert(leaf_started[1] == 0, "let_value: no successor on error/stopped");
        if (l.chan == ch_error) verif_assert(rec.chan == ch_error && rec.err == l.value, "let_value: upstream error forwarded");
        else
            verif_assert(rec.chan == ch_stopped, "let_value: upstream stopped forwarded");
    }
    verif_cover(0);
}
extern "C" void lete_main()
{
    leaf l = mk(0), l2 = mk(1);
    record rec;
    bool throws = verif_nondet_range(0, 1);
    auto s = ex::let_error(l, [l2, throws](std::exception_ptr&) {
        if (throws) throw test_error{56};
        return l2;
    });
    auto o = ex::connect(std::move(s), recv<>{&rec});
    ex::start(o);
    verif_assert(rec.signals == 1, "exactly one completion signal");
    if (l.chan == ch_error && throws)
    {
        verif_assert(rec.chan == ch_error && rec.err == 56, "let_error: an exception thrown by f arrives as that error");
        verif_assert(leaf_started[1] == 0, "let_error: no recovery sender is started when f throws");
    }
    else if (l.chan == ch_error)
    {
        verif_assert(leaf_started[1] == 1, "let_error: the recovery sender is started exactly once");
        if (l2.chan == ch_value) verif_assert(rec.chan == ch_value && rec.value == l2.value, "let_error: completes with the recovery sender's value");
        else if (l2.chan == ch_error)
            verif_assert(rec.chan == ch_error && rec.err == l2.value, "let_error: recovery error forwarded");
        else
            verif_assert(rec.chan == ch_stopped, "let_error: recovery stopped forwarded");
    }
    else if (l.chan == ch_value)
        verif_assert(rec.chan == ch_value && rec.value == l.value && leaf_started[1] == 0, "let_error: value passes through");
    else
        verif_assert(rec.chan == ch_stopped, "let_error: stopped passes through");
    verif_cover(0);
}

// ---- when_all ------------------------------------------------------------------------------------------------
extern "C" void wall_main()
{
    leaf a = mk(0), b = mk(1);
    record rec;
    auto s = ex::when_all(a, b);
    auto o = ex::connect(std::move(s), recv<>{&rec});
    ex::start(o);
    verif_assert(rec.signals == 1, "exactly one completion signal");
    verif_assert(leaf_started[0] == 1 && leaf_started[1] == 1, "when_all starts every predecessor exactly once");
    if (a.chan == ch_value && b.chan == ch_value) verif_assert(rec.chan == ch_value && rec.value == a.value && rec.value2 == b.value, "when_all: values in order");
    else if (a.chan == ch_error)
        verif_assert(rec.chan == ch_error && rec.err == a.value, "when_all: first error wins");
    else if (a.chan == ch_stopped)
        verif_assert(rec.chan == ch_stopped, "when_all: stopped of the first predecessor wins");
    else if (b.chan == ch_error)
        verif_assert(rec.chan == ch_error && rec.err == b.value, "when_all: error forwarded");
    else
        verif_assert(rec.chan == ch_stopped, "when_all: stopped forwarded");
    verif_cover(0);
}

// ---- split: two consumers of one predecessor ---------------------------------------------------------------
extern "C" void split_main()
{
    leaf l = mk(0);
    record r1, r2;
    auto s = ex::split(l);
    auto s2 = s;
    auto o1 = ex::connect(std::move(s), recv<>{&r1});
    auto o2 = ex::connect(std::move(s2), recv<>{&r2});
    ex::start(o1);
    ex::start(o2);
    verif_assert(r1.signals == 1 && r2.signals == 1, "split: every consumer gets exactly one completion signal");
    verif_assert(leaf_started[0] == 1, "split: the predecessor is started exactly once");
    verif_assert(r1.chan == l.chan && r2.chan == l.chan, "split: every consumer sees the predecessor's channel");
    if (l.chan == ch_value) verif_assert(r1.value == l.value && r2.value == l.value, "split: value forwarded to every consumer");
    if (l.chan == ch_error) verif_assert(r1.err == l.value && r2.err == l.value, "split: error forwarded to every consumer");
    verif_cover(0);
}

// ---- ensure_started --------------------------------------------------------------------------------------------
extern "C" void ens_main()
{
    leaf l = mk(0);
    record rec;
    auto s = ex::ensure_started(l);
    verif_assert(leaf_started[0] == 1, "ensure_started starts the predecessor eagerly, once");
    auto o = ex::connect(std::move(s), recv<>{&rec});
    ex::start(o);
    verif_assert(rec.signals == 1, "exactly one completion signal");
    verif_assert(rec.chan == l.chan, "ensure_started: channel preserved");
    if (l.chan == ch_value) verif_assert(rec.value == l.value, "ensure_started: value forwarded");
    if (l.chan == ch_error) verif_assert(rec.err == l.value, "ensure_started: error forwarded");
    verif_assert(leaf_started[0] == 1, "predecessor not started twice");
    verif_cover(0);
}

// ---- drop_value ---------------------------------------------------------------------------------------------------
extern "C" void drop_main()
{
    leaf l = mk(0);
    record rec;
    auto s = ex::drop_value(l);
    auto o = ex::connect(std::move(s), recv<>{&rec});
    ex::start(o);
    verif_assert(rec.signals == 1 && rec.chan == l.chan, "drop_value: one signal on the same channel");
    if (l.chan == ch_error) verif_assert(rec.err == l.value, "drop_value: error forwarded");
    verif_cover(0);
}

// ---- drop_operation_state: results parked, predecessor operation state released, then forwarded ---------------------
extern "C" void dos_main()
{
    leaf l = mk(0);
    record rec;
    auto s = ex::drop_operation_state(l);
    auto o = ex::connect(std::move(s), recv<>{&rec});
    ex::start(o);
    verif_assert(rec.signals == 1, "exactly one completion signal");
    verif_assert(leaf_started[0] == 1, "the predecessor is started exactly once");
    verif_assert(rec.chan == l.chan, "drop_operation_state: channel preserved");
    if (l.chan == ch_value) verif_assert(rec.value == l.value, "drop_operation_state: value forwarded unchanged");
    if (l.chan == ch_error) verif_assert(rec.err == l.value, "drop_operation_state: error forwarded unchanged");
    verif_cover(0);
}

// ---- unpack: a tuple-valued predecessor is delivered element-wise, in order ----------------------------------------
struct tleaf
{
    PIKA_STDEXEC_SENDER_CONCEPT
    int chan, v, w;
    template <template <typename...> class Tuple, template <typename...> class Variant>
    using value_types = Variant<Tuple<std::tuple<int, int>>>;
    template <template <typename...> class Variant>
    using error_types = Variant<std::exception_ptr>;
    static constexpr bool sends_done = true;
    using completion_signatures =
        ex::completion_signatures<ex::set_value_t(std::tuple<int, int>), ex::set_error_t(std::exception_ptr), ex::set_stopped_t()>;
    template <typename R>
    struct op
    {
        std::decay_t<R> r;
        int chan, v, w;
        void start() & noexcept
        {
            ++leaf_started[0];
            if (chan == ch_value) ex::set_value(std::move(r), std::tuple<int, int>(v, w));
            else if (chan == ch_error)
                ex::set_error(std::move(r), std::make_exception_ptr(test_error{v}));
            else
                ex::set_stopped(std::move(r));
        }
    };
    template <typename R>
    op<R> connect(R&& r) const
    {
        return op<R>{std::forward<R>(r), chan, v, w};
    }
};
extern "C" void unp_main()
{
    tleaf l{(int) verif_nondet_range(0, 2), (int) verif_nondet_range(1, 5), (int) verif_nondet_range(6, 9)};
    record rec;
    auto s = ex::unpack(l);
    auto o = ex::connect(std::move(s), recv<>{&rec});
    ex::start(o);
    verif_assert(rec.signals == 1, "exactly one completion signal");
    verif_assert(leaf_started[0] == 1, "the predecessor is started exactly once");
    verif_assert(rec.chan == l.chan, "unpack: channel preserved");
    if (l.chan == ch_value) verif_assert(rec.value == l.v && rec.value2 == l.w, "unpack: tuple elements delivered unchanged and in order");
    if (l.chan == ch_error) verif_assert(rec.err == l.v, "unpack: error forwarded unchanged");
    verif_cover(0);
}

// ---- split_tuple: one sender per tuple element, every one completes once on the predecessor's channel -------------
extern "C" void spt_main()
{
    tleaf l{(int) verif_nondet_range(0, 2), (int) verif_nondet_range(1, 5), (int) verif_nondet_range(6, 9)};
    record r1, r2;
    auto [s1, s2] = ex::split_tuple(l);
    bool second_first = verif_nondet_range(0, 1);
    auto o1 = ex::connect(std::move(s1), recv<>{&r1});
    auto o2 = ex::connect(std::move(s2), recv<>{&r2});
    if (second_first)
    {
        ex::start(o2);
        ex::start(o1);
    }
    else
    {
        ex::start(o1);
        ex::start(o2);
    }
    verif_assert(r1.signals == 1 && r2.signals == 1, "split_tuple: every element sender gets exactly one completion signal");
    verif_assert(leaf_started[0] == 1, "split_tuple: the predecessor is started exactly once");
    verif_assert(r1.chan == l.chan && r2.chan == l.chan, "split_tuple: every element sender sees the predecessor's channel");
    if (l.chan == ch_value) verif_assert(r1.value == l.v && r2.value == l.w, "split_tuple: element i goes to sender i, unchanged");
    if (l.chan == ch_error) verif_assert(r1.err == l.v && r2.err == l.v, "split_tuple: error forwarded to every element sender");
    verif_cover(0);
}

// ---- when_all: a predecessor value whose decay-copy into when_all's storage throws -------------------------------------
struct tv
{
    int x;
    bool boom;
    tv(int x, bool boom) noexcept : x(x), boom(boom) {}
    tv(tv const& o) : x(o.x), boom(o.boom)
    {
        if (boom) throw test_error{88};
    }
    tv(tv&& o) noexcept : x(o.x), boom(o.boom) {}
};
struct recv_tv
{
    PIKA_STDEXEC_RECEIVER_CONCEPT
    record* r;
    void set_value(tv v, int w) && noexcept
    {
        ++r->signals;
        r->chan = ch_value;
        r->value = v.x;
        r->value2 = w;
    }
    void set_error(std::exception_ptr e) && noexcept { recv<>{r}.set_error(std::move(e)); }
    void set_stopped() && noexcept
    {
        ++r->signals;
        r->chan = ch_stopped;
    }
    constexpr ex::empty_env get_env() const& noexcept { return {}; }
};
struct vleaf
{
    PIKA_STDEXEC_SENDER_CONCEPT
    int chan, x;
    bool boom;
    template <template <typename...> class Tuple, template <typename...> class Variant>
    using value_types = Variant<Tuple<tv>>;
    template <template <typename...> class Variant>
    using error_types = Variant<std::exception_ptr>;
    static constexpr bool sends_done = true;
    using completion_signatures = ex::completion_signatures<ex::set_value_t(tv const&), ex::set_error_t(std::exception_ptr), ex::set_stopped_t()>;
    template <typename R>
    struct op
    {
        std::decay_t<R> r;
        int chan;
        tv val;
        void start() & noexcept
        {
            ++leaf_started[0];
            if (chan == ch_value) ex::set_value(std::move(r), static_cast<tv const&>(val));
            else if (chan == ch_error)
                ex::set_error(std::move(r), std::make_exception_ptr(test_error{val.x}));
            else
                ex::set_stopped(std::move(r));
        }
    };
    template <typename R>
    op<R> connect(R&& r) const
    {
        return op<R>{std::forward<R>(r), chan, tv(x, boom)};
    }
};
extern "C" void wallt_main()
{
    vleaf a{(int) verif_nondet_range(0, 2), (int) verif_nondet_range(1, 5), (bool) verif_nondet_range(0, 1)};
    leaf b = mk(1);
    record rec;
    auto s = ex::when_all(a, b);
    auto o = ex::connect(std::move(s), recv_tv{&rec});
    ex::start(o);
    verif_assert(rec.signals == 1, "exactly one completion signal");
    verif_assert(leaf_started[0] == 1 && leaf_started[1] == 1, "when_all starts every predecessor exactly once");
    if (a.chan == ch_value && a.boom)
        verif_assert(rec.chan == ch_error && rec.err == 88, "when_all: an exception thrown while storing a value arrives as that error");
    else if (a.chan == ch_value && b.chan == ch_value)
        verif_assert(rec.chan == ch_value && rec.value == a.x && rec.value2 == b.value, "when_all: values in order");
    else if (a.chan == ch_error)
        verif_assert(rec.chan == ch_error && rec.err == a.x, "when_all: first error wins");
    else if (a.chan == ch_stopped)
        verif_assert(rec.chan == ch_stopped, "when_all: stopped of the first predecessor wins");
    else if (b.chan == ch_error)
        verif_assert(rec.chan == ch_error && rec.err == b.value, "when_all: error forwarded");
    else
        verif_assert(rec.chan == ch_stopped, "when_all: stopped forwarded");
    verif_cover(0);
}
