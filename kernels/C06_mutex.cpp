// C06 — pika::mutex / timed_mutex (real mutex.cpp + detail/condition_variable.cpp + spinlock) over the
// agent contract.  Scenarios: mx_ (T tasks, mixed lock/try_lock/try_lock_until, yield inside the
// critical section), misuse_ (sequential: API-promised error detection).
#include "env_pre.hpp"
#include </repo/libs/pika/synchronization/src/mutex.cpp>
#include </repo/libs/pika/synchronization/src/detail/condition_variable.cpp>
#include "env_sync.hpp"

#ifndef NSEC
#define NSEC 2
#endif

static pika::timed_mutex m;
static int in_cs, sections, counter;

static void section()
{
#ifdef NO_TIMED
    unsigned kind = verif_nondet_range(0, 1);
#else
    unsigned kind = verif_nondet_range(0, 2);
#endif
    bool got = false;
    if (kind == 0)
    {
        m.lock();
        got = true;
    }
    else if (kind == 1)
        got = m.try_lock();
    else
        got = m.try_lock_until(pika::chrono::steady_time_point(std::chrono::steady_clock::time_point{}));
    if (got)
    {
        verif_assert(in_cs == 0, "mutual exclusion: at most one owner");
        ++in_cs;
        int c = counter;
        verif_yield();    // a yield inside the critical section
        counter = c + 1;  // unprotected shared data: lost update iff exclusion/visibility is broken
        --in_cs;
        ++sections;
        m.unlock();
    }
}
static void worker()
{
    for (int i = 0; i < NSEC; ++i) section();
}
extern "C" void mx_init() {}
extern "C" void mx_thread_0() { worker(); }
extern "C" void mx_thread_1() { worker(); }
#if NTHREADS > 2
extern "C" void mx_thread_2() { worker(); }
#endif
extern "C" void mx_final()
{
    verif_assert(counter == sections, "every critical section's update is visible in the next (no lost update)");
    verif_assert(m.try_lock(), "mutex is free at quiescence (no unlock lost)");
    verif_cover(0);
}

// ---- misuse: sequential ---------------------------------------------------------------------------
extern "C" void misuse_main()
{
    pika::mutex mm;
    verif_identity_as = 1;
    mm.lock();
    {
        pika::error_code ec(pika::throwmode::lightweight);
        mm.lock("relock", ec);
        verif_assert(ec.value() == static_cast<int>(pika::error::deadlock), "re-locking an owned mutex reports deadlock");
        verif_assert(!mm.try_lock(), "mutex still owned after the refused re-lock");
    }
    verif_identity_as = 2;    // a different task
    {
        pika::error_code ec(pika::throwmode::lightweight);
        mm.unlock(ec);
        verif_assert(ec.value() == static_cast<int>(pika::error::lock_error), "unlocking a foreign mutex reports lock_error");
        verif_assert(!mm.try_lock(), "foreign unlock leaves the mutex owned");
    }
    bool thrown = false;
    try
    {
        mm.unlock();    // throws mode
    }
    catch (verif_pika_error const& e)
    {
        thrown = e.code == static_cast<int>(pika::error::lock_error);
    }
    verif_assert(thrown, "foreign unlock throws lock_error in throws mode");
    verif_identity_as = 1;
    mm.unlock();
    verif_identity_as = 2;
    verif_assert(mm.try_lock(), "unlock by the owner frees the mutex for another task");
}
