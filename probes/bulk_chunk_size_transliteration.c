#include <stdint.h>
#include <assert.h>
/* transliteration of bulk_receiver::get_chunk_size / num_chunks (Shape = uint64_t) -- probe only */
uint32_t nondet_u32(void); uint64_t nondet_u64(void);
static uint32_t get_chunk_size(uint32_t num_threads, uint64_t n){
  uint32_t chunk_size = 1;
  while (chunk_size * num_threads * 8 < (uint32_t) n) chunk_size *= 2;
  return chunk_size;
}
int main(){
  uint32_t T=nondet_u32(); uint64_t n=nondet_u64(); __CPROVER_assume(T>=1 && T<=64 && n>=1);
#ifdef SMALL
  __CPROVER_assume(n < (1ull<<31)/64);
#endif
  uint32_t cs=get_chunk_size(T,n);
  uint64_t num_chunks=(n+cs-1)/cs;
  uint32_t nc32=(uint32_t)num_chunks;
  assert(cs>=1);
  assert((uint64_t)nc32*cs >= n);
  return 0;
}
