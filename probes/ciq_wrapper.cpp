#include <pika/concurrency/detail/contiguous_index_queue.hpp>
#include <cstdint>
using Q = pika::concurrency::detail::contiguous_index_queue<std::uint32_t>;
extern "C" {
__attribute__((noinline)) void ciq_reset(Q* q, std::uint32_t a, std::uint32_t b) { q->reset(a,b); }
__attribute__((noinline)) int ciq_pop_left(Q* q, std::uint32_t* out) { auto r = q->pop_left(); if (r) { *out = *r; return 1;} return 0; }
__attribute__((noinline)) int ciq_pop_right(Q* q, std::uint32_t* out) { auto r = q->pop_right(); if (r) { *out = *r; return 1;} return 0; }
__attribute__((noinline)) int ciq_empty(Q* q) { return q->empty(); }
}
