// SHIM of pika/threading_base/thread_data_stackful.hpp for the scheduler-level kernels (C01/C02).
// The stackful task object keeps its interface, but the coroutine/context switch underneath it (assembly,
// own stacks: property C12) is replaced by its contract: one call() runs one *phase* of the task body, which
// is a harness state machine `verif_task_phase(task, restart_state) -> (requested state, next thread)`.
// Everything above it - thread_data state word, scheduling_loop, switch_status, set_thread_state - is real.
#pragma once
#include <pika/config.hpp>
#include <pika/execution_base/this_thread.hpp>
#include <pika/threading_base/thread_data.hpp>
#include <pika/threading_base/thread_init_data.hpp>

namespace pika::threads::detail {
    class thread_data_stackful;
}
// provided by the kernel
pika::threads::detail::thread_result_type verif_task_phase(
    pika::threads::detail::thread_data_stackful* task, pika::threads::detail::thread_restart_state why);

namespace pika::threads::detail {
    class thread_data_stackful : public thread_data
    {
    public:
        coroutine_type::result_type call(pika::execution::this_thread::detail::agent_storage*)
        {
            PIKA_ASSERT(get_state().state() == thread_schedule_state::active);
            return verif_task_phase(this, set_state_ex(thread_restart_state::signaled));
        }
        std::size_t get_thread_data() const override { return data_; }
        std::size_t set_thread_data(std::size_t d) override
        {
            std::size_t o = data_;
            data_ = d;
            return o;
        }
        void init() override {}
        void rebind(thread_init_data& init_data) override
        {
            this->thread_data::rebind_base(init_data);
            data_ = 0;
            phase_ = 0;
        }
        thread_data_stackful(thread_init_data& init_data, void* queue, std::ptrdiff_t stacksize, thread_id_addref addref)
          : thread_data(init_data, queue, stacksize, false, addref)
        {
        }
        ~thread_data_stackful() {}
        static thread_data* create(thread_init_data& data, void* queue, std::ptrdiff_t stacksize,
            thread_id_addref addref = thread_id_addref::yes)
        {
            return new thread_data_stackful(data, queue, stacksize, addref);
        }
        void destroy() override { delete this; }

        // harness-visible task program state
        int program_ = 0;    // which task program this object runs
        int phase_ = 0;      // next phase to run
        std::size_t data_ = 0;
    };
}    // namespace pika::threads::detail
