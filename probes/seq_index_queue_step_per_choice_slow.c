#include <stdint.h>
#include <assert.h>
typedef struct { uint32_t first, last; } range;
typedef struct { range initial; uint64_t cur; } Q;
Q q;
/* resumable pop: frame */
typedef struct { int pc; int right; uint64_t e, d; uint32_t f,l; uint32_t out; int ret; } fr_pop;
static int pop_step(fr_pop* fr){
  switch(fr->pc){ case 0: break; case 1: goto R1; case 2: goto R2; }
  fr->pc=1; return 1; R1:;
  fr->e = q.cur;                         /* atomic load */
  for(;;){
    fr->f=(uint32_t)fr->e; fr->l=(uint32_t)(fr->e>>32);
    if(!(fr->f<fr->l)){ fr->ret=0; return 0; }
    if(fr->right) fr->d=((uint64_t)(fr->l-1)<<32)|fr->f; else fr->d=((uint64_t)fr->l<<32)|(uint64_t)(fr->f+1);
    fr->pc=2; return 1; R2:;
    if(q.cur==fr->e){ q.cur=fr->d; fr->out = fr->right? fr->l-1 : fr->f; fr->ret=1; return 0; }
    else fr->e=q.cur;
  }
}
#define NT 3
#define K 2
typedef struct { int pc; int i; fr_pop c; } fr_worker;
fr_worker W[NT]; uint32_t got[NT][K]; int ngot[NT]; int done[NT];
_Bool nondet_bool(void); uint32_t nondet_u32(void); unsigned char nondet_uchar(void);
static int worker_step(int t){
  fr_worker* fr=&W[t];
  switch(fr->pc){ case 0: break; case 1: goto R1; }
  for(fr->i=0; fr->i<K; fr->i++){
    fr->c.pc=0; fr->c.right=nondet_bool();
    R1: if(pop_step(&fr->c)){ fr->pc=1; return 1; }
    if(fr->c.ret) got[t][ngot[t]++]=fr->c.out;
  }
  return 0;
}
#ifndef STEPS
#define STEPS 24
#endif
int main(){
  uint32_t a=nondet_u32(), b=nondet_u32(); __CPROVER_assume(a<=b);
  q.initial.first=a;q.initial.last=b;q.cur=((uint64_t)b<<32)|a;
  for(int s=0;s<STEPS;s++){
    if(done[0]&&done[1]&&done[2]) break;
    unsigned char t=nondet_uchar(); __CPROVER_assume(t<NT && !done[t]);
    switch(t){case 0: if(!worker_step(0)) done[0]=1; break; case 1: if(!worker_step(1)) done[1]=1; break; default: if(!worker_step(2)) done[2]=1; break;}
  }
  assert(done[0]&&done[1]&&done[2]); /* budget assertion */
  int total=0;
  for(int t=0;t<NT;t++) for(int i=0;i<ngot[t];i++){ uint32_t v=got[t][i]; assert(v>=a && v<b); total++;
     for(int t2=0;t2<NT;t2++) for(int j=0;j<ngot[t2];j++) if(t2!=t||j!=i) assert(got[t2][j]!=v); }
  uint32_t f=(uint32_t)q.cur,l=(uint32_t)(q.cur>>32); uint32_t rem = f<l? l-f:0;
  assert(rem+total == b-a);
#ifdef WITNESS
  assert(0);
#endif
  return 0;
}
