// C06 — recursive_mutex (real recursive_mutex.hpp over the real spinlock.hpp): one owner counted re-entrantly.
#include "env_pre.hpp"
#include <pika/synchronization/recursive_mutex.hpp>
#include "env_sync.hpp"

static pika::detail::recursive_mutex_impl<> rm;
static int owner = -1, depth, counter, sections;

static void worker()
{
    int t = verif_tid();
    bool got = true;
    if (verif_nondet_range(0, 1)) rm.lock();
    else
        got = rm.try_lock();
    if (!got) return;
    verif_assert(owner == -1 || owner == t, "recursive mutex: at most one owning task");
    owner = t;
    ++depth;
    bool again = verif_nondet_range(0, 1);
    if (again)
    {
        verif_assert(rm.try_lock(), "the owner can lock again (re-entrant)");
        ++depth;
    }
    int c = counter;
    verif_yield();
    counter = c + 1;
    ++sections;
    if (again)
    {
        --depth;
        rm.unlock();
        verif_assert(owner == t, "still owned after the inner unlock");
    }
    --depth;
    if (depth == 0) owner = -1;
    rm.unlock();
}
extern "C" void rmx_init() {}
extern "C" void rmx_thread_0() { worker(); }
extern "C" void rmx_thread_1() { worker(); }
extern "C" void rmx_final()
{
    verif_assert(counter == sections, "updates made under the recursive mutex are not lost");
    verif_assert(rm.try_lock(), "the recursive mutex is free at quiescence");
    verif_cover(0);
}
