// C12 (K3) — recycling of a task object: a thread_data_stackless in an arbitrary used state is rebound to a new
// task (real thread_data.cpp rebind_base + thread_data_stackless::rebind + stackless coroutine rebind) and must
// start clean: no inherited interruption request, interruption enabled, exit callbacks gone and accepted again,
// fresh state word, priority / stack-size class / scheduler taken from the new init data.
#include "env_pre.hpp"
#include </repo/libs/pika/threading_base/src/thread_data.cpp>
#include </repo/libs/pika/threading_base/src/thread_data_stackless.cpp>
#include </repo/libs/pika/functional/src/basic_function.cpp>
#include </repo/libs/pika/functional/src/empty_function.cpp>
#include </repo/libs/pika/thread_support/src/spinlock.cpp>
#include </repo/libs/pika/coroutines/src/detail/coroutine_self.cpp>
#include "env_errors.hpp"

namespace pika {
    [[noreturn]] void throw_exception(error e, std::string const&, std::string const&) { verif_detail::throw_exception(e); }
}
using namespace pika::threads::detail;

static int body_runs, cb_runs;
static thread_result_type body(thread_restart_state)
{
    ++body_runs;
    return thread_result_type(thread_schedule_state::terminated, invalid_thread_id);
}

extern "C" void rec_main()
{
    auto prio = [](unsigned v) { return v == 0 ? pika::execution::thread_priority::low : v == 1 ? pika::execution::thread_priority::normal : pika::execution::thread_priority::high; };
    auto stk = [](unsigned v) { return v == 0 ? pika::execution::thread_stacksize::small_ : v == 1 ? pika::execution::thread_stacksize::medium : pika::execution::thread_stacksize::large; };
    scheduler_base* sched1 = reinterpret_cast<scheduler_base*>(0x1000);
    scheduler_base* sched2 = reinterpret_cast<scheduler_base*>(0x2000);

    thread_init_data d1(&body, "first", prio(verif_nondet_range(0, 2)), pika::execution::thread_schedule_hint(), stk(verif_nondet_range(0, 2)),
        thread_schedule_state::pending, false, sched1);
    thread_data* td = thread_data_stackless::create(d1, nullptr, 0x8000);

    // ---- arbitrary history of the first incarnation -----------------------------------------------------
    if (verif_nondet_range(0, 1)) td->interrupt(true);
    if (verif_nondet_range(0, 1)) td->set_interruption_enabled(false);
    unsigned ncb = verif_nondet_range(0, 2);
    for (unsigned i = 0; i < ncb; ++i) td->add_thread_exit_callback([] { ++cb_runs; });
    if (verif_nondet_range(0, 1)) td->run_thread_exit_callbacks();
    else
        { if (ncb == 0) td->free_thread_exit_callbacks(); else td->run_thread_exit_callbacks(); }
    // the first task runs to completion (stackless: one call), leaving a terminated state word
    td->set_state(thread_schedule_state::active);
    static_cast<thread_data_stackless*>(td)->call();
    verif_assert(body_runs == 1, "body of the first task ran");
    td->set_state(thread_schedule_state::terminated, verif_nondet_range(0, 1) ? thread_restart_state::abort : thread_restart_state::signaled);

    // ---- recycle ----------------------------------------------------------------------------------------
    unsigned p2 = verif_nondet_range(0, 2), s2 = verif_nondet_range(0, 2);
    thread_init_data d2(&body, "second", prio(p2), pika::execution::thread_schedule_hint(), stk(s2), thread_schedule_state::pending, false, sched2);
    td->rebind(d2);

    verif_assert(!td->interruption_requested(), "a recycled task inherits no interruption request");
    verif_assert(td->interruption_enabled(), "a recycled task starts with interruption enabled");
    verif_assert(td->get_state().state() == thread_schedule_state::pending && td->get_state().state_ex() == thread_restart_state::signaled,
        "a recycled task starts with a fresh state word (initial state, signaled)");
    verif_assert(td->get_priority() == prio(p2), "priority comes from the new task");
    verif_assert(td->get_stack_size_enum() == stk(s2), "stack-size class comes from the new task");
    verif_assert(td->get_scheduler_base() == sched2, "scheduler comes from the new task");
    verif_assert(td->get_thread_data() == 0, "a recycled task inherits no task-local data");
    int before = cb_runs;
    verif_assert(td->add_thread_exit_callback([] { cb_runs += 10; }), "a recycled task accepts exit callbacks again");
    td->run_thread_exit_callbacks();
    verif_assert(cb_runs == before + 10, "only the new task's exit callback runs (none inherited)");
    verif_cover(0);
}
