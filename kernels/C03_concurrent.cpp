// C03 (concurrent part) — completion timing "later, on another thread" and "concurrently with a second consumer":
// the real when_all / split / ensure_started headers over DEFERRED leaf senders.  start() of a deferred leaf only
// registers its operation state; another thread fires the completion (symbolic channel) at an arbitrary time.
// State under test: when_all predecessors_remaining / set_stopped_error_called; split and ensure_started
// shared_state (predecessor_done, start_called, continuations under the spinlock, reference count).
#include "env_pre.hpp"
#include <pika/execution/algorithms/ensure_started.hpp>
#include <pika/execution/algorithms/split.hpp>
#include <pika/execution/algorithms/when_all.hpp>
#include </repo/libs/pika/functional/src/basic_function.cpp>
#include </repo/libs/pika/functional/src/empty_function.cpp>
#include "env_sync.hpp"
namespace pika {
    [[noreturn]] void throw_exception(error e, std::string const&, std::string const&) { verif_detail::throw_exception(e); }
}

namespace ex = pika::execution::experimental;

enum channel
{
    ch_value = 0,
    ch_error = 1,
    ch_stopped = 2
};
struct test_error
{
    int code;
};

struct record
{
    int signals = 0, chan = -1, value = 0, value2 = 0, err = 0;
};
struct recv
{
    PIKA_STDEXEC_RECEIVER_CONCEPT
    record* r;
    void set_value() && noexcept
    {
        ++r->signals;
        r->chan = ch_value;
    }
    void set_value(int v) && noexcept
    {
        ++r->signals;
        r->chan = ch_value;
        r->value = v;
    }
    void set_value(int v, int w) && noexcept
    {
        ++r->signals;
        r->chan = ch_value;
        r->value = v;
        r->value2 = w;
    }
    void set_error(std::exception_ptr e) && noexcept
    {
        ++r->signals;
        r->chan = ch_error;
        try
        {
            std::rethrow_exception(e);
        }
        catch (test_error const& t)
        {
            r->err = t.code;
        }
        catch (...)
        {
            r->err = -1;
        }
    }
    void set_stopped() && noexcept
    {
        ++r->signals;
        r->chan = ch_stopped;
    }
    constexpr ex::empty_env get_env() const& noexcept { return {}; }
};

// ---- deferred leaf ----------------------------------------------------------------------------------------
static std::uint32_t leaf_started[2];
static int leaf_chan[2], leaf_value[2], leaf_fired[2];
static void (*leaf_fire_fn[2])(void*);
static void* leaf_fire_arg[2];

struct dleaf
{
    PIKA_STDEXEC_SENDER_CONCEPT
    int id;
    template <template <typename...> class Tuple, template <typename...> class Variant>
    using value_types = Variant<Tuple<int>>;
    template <template <typename...> class Variant>
    using error_types = Variant<std::exception_ptr>;
    static constexpr bool sends_done = true;
    using completion_signatures =
        ex::completion_signatures<ex::set_value_t(int), ex::set_error_t(std::exception_ptr), ex::set_stopped_t()>;

    template <typename R>
    struct op
    {
        std::decay_t<R> r;
        int id;
        static void fire(void* p)
        {
            op* self = static_cast<op*>(p);
            int id = self->id;
            if (leaf_chan[id] == ch_value) ex::set_value(std::move(self->r), leaf_value[id]);
            else if (leaf_chan[id] == ch_error)
                ex::set_error(std::move(self->r), std::make_exception_ptr(test_error{leaf_value[id]}));
            else
                ex::set_stopped(std::move(self->r));
        }
        void start() & noexcept
        {
            verif_assert(leaf_started[id] == 0, "a predecessor is started at most once");
            leaf_fire_fn[id] = &fire;
            leaf_fire_arg[id] = this;
            leaf_started[id] = 1;
        }
    };
    template <typename R>
    op<R> connect(R&& r) const
    {
        return op<R>{std::forward<R>(r), id};
    }
};
static void choose_leaf(int id)
{
    leaf_chan[id] = (int) verif_nondet_range(0, 2);
    leaf_value[id] = (int) verif_nondet_range(1, 3) + 10 * id;
}
// the producer thread of leaf id: completes it at an arbitrary time after it was started
static void producer(int id)
{
    verif_block_until(&leaf_started[id]);
    verif_assert(!leaf_fired[id], "completed once");
    leaf_fired[id] = 1;
    leaf_fire_fn[id](leaf_fire_arg[id]);
}

// ---- when_all: two predecessors completing on two different threads ----------------------------------------
static record wa_rec;
using wa_sender = decltype(ex::when_all(dleaf{0}, dleaf{1}));
using wa_op = ex::connect_result_t<wa_sender, recv>;
static wa_op* wa;
extern "C" void wac_init()
{
    choose_leaf(0);
    choose_leaf(1);
    wa = new wa_op(ex::connect(ex::when_all(dleaf{0}, dleaf{1}), recv{&wa_rec}));
    ex::start(*wa);
    verif_assert(leaf_started[0] == 1 && leaf_started[1] == 1, "when_all starts every predecessor");
}
extern "C" void wac_thread_0() { producer(0); }
extern "C" void wac_thread_1() { producer(1); }
extern "C" void wac_final()
{
    verif_assert(wa_rec.signals == 1, "exactly one completion signal");
    bool v0 = leaf_chan[0] == ch_value, v1 = leaf_chan[1] == ch_value;
    if (v0 && v1) verif_assert(wa_rec.chan == ch_value && wa_rec.value == leaf_value[0] && wa_rec.value2 == leaf_value[1], "when_all: all values, in order");
    else if (!v0 && v1)
        verif_assert(wa_rec.chan == leaf_chan[0] && (leaf_chan[0] != ch_error || wa_rec.err == leaf_value[0]), "when_all: the only non-value completion is forwarded");
    else if (v0 && !v1)
        verif_assert(wa_rec.chan == leaf_chan[1] && (leaf_chan[1] != ch_error || wa_rec.err == leaf_value[1]), "when_all: the only non-value completion is forwarded");
    else
    {
        // both non-value: whichever completed first wins; either is a correct outcome of the race
        bool is0 = wa_rec.chan == leaf_chan[0] && (leaf_chan[0] != ch_error || wa_rec.err == leaf_value[0]);
        bool is1 = wa_rec.chan == leaf_chan[1] && (leaf_chan[1] != ch_error || wa_rec.err == leaf_value[1]);
        verif_assert(is0 || is1, "when_all: one of the non-value completions is forwarded, unchanged");
    }
    verif_cover(0);
}

// ---- split: two consumers started on two threads while the predecessor completes on a third -----------------
static record sp_rec[2];
using sp_sender = decltype(ex::split(dleaf{0}));
using sp_op = ex::connect_result_t<sp_sender, recv>;
static sp_op* sp[2];
extern "C" void spc_init()
{
    choose_leaf(0);
    auto s = ex::split(dleaf{0});
    auto s2 = s;
    sp[0] = new sp_op(ex::connect(std::move(s), recv{&sp_rec[0]}));
    sp[1] = new sp_op(ex::connect(std::move(s2), recv{&sp_rec[1]}));
}
extern "C" void spc_thread_0() { ex::start(*sp[0]); }
extern "C" void spc_thread_1() { ex::start(*sp[1]); }
extern "C" void spc_thread_2() { producer(0); }
extern "C" void spc_final()
{
    for (int i = 0; i < 2; ++i)
    {
        verif_assert(sp_rec[i].signals == 1, "split: every consumer gets exactly one completion signal");
        verif_assert(sp_rec[i].chan == leaf_chan[0], "split: every consumer sees the predecessor's channel");
        if (leaf_chan[0] == ch_value) verif_assert(sp_rec[i].value == leaf_value[0], "split: value forwarded to every consumer");
        if (leaf_chan[0] == ch_error) verif_assert(sp_rec[i].err == leaf_value[0], "split: error forwarded to every consumer");
    }
    verif_assert(leaf_started[0] == 1, "split: the predecessor was started exactly once");
    verif_cover(0);
}

// ---- ensure_started: the consumer connects/starts while the eagerly started predecessor completes ---------------
static record es_rec;
using es_sender = decltype(ex::ensure_started(dleaf{0}));
using es_op = ex::connect_result_t<es_sender, recv>;
static es_op* es;
extern "C" void esc_init()
{
    choose_leaf(0);
    auto s = ex::ensure_started(dleaf{0});
    verif_assert(leaf_started[0] == 1, "ensure_started starts the predecessor eagerly");
    es = new es_op(ex::connect(std::move(s), recv{&es_rec}));
}
extern "C" void esc_thread_0() { ex::start(*es); }
extern "C" void esc_thread_1() { producer(0); }
extern "C" void esc_final()
{
    verif_assert(es_rec.signals == 1, "ensure_started: exactly one completion signal");
    verif_assert(es_rec.chan == leaf_chan[0], "ensure_started: channel preserved");
    if (leaf_chan[0] == ch_value) verif_assert(es_rec.value == leaf_value[0], "ensure_started: value forwarded");
    if (leaf_chan[0] == ch_error) verif_assert(es_rec.err == leaf_value[0], "ensure_started: error forwarded");
    verif_cover(0);
}
