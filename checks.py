"""Per-property query tables for ./check (DESIGN.md section 7).  Every query names the kernel TU (which
#includes the real /repo sources), the root prefix of the scenario inside it, the translation mode and
the bounds.  tiers: which tier runs the query (default both)."""

COMMON_ASSUMPTIONS = [
    'Encoding = clang++-14 -O1 LLVM IR of the real /repo sources, translated to C by /verif/tools/ll2c and decided by CBMC 6.11 + kissat; '
    'translator validated on every run by comparing the gcc build of the generated C with the clang build of the same IR on seeded concrete runs.',
    'Sequential consistency: memory_order arguments are ignored; weak compare_exchange never fails spuriously; non-atomic accesses are assumed race-free '
    '(context switches only at atomic operations and at environment blocking/polling primitives).',
    'Schedules: all round-robin schedules with R contexts per thread (budget per context arbitrary in [0,BMAX] visible operations, last round run-to-block); '
    'loops inside a context bounded by --unwind with unwinding assertions. Nothing is claimed outside these bounds.',
    'Allocation never fails; freed addresses are never reused (double delete is an assertion, ABA through the allocator is out of scope unless a kernel models its own pool).',
    'PIKA_ASSERT (kernels are built with -DPIKA_DEBUG) and PIKA_UNREACHABLE are proof obligations via pika::detail::handle_assert.',
]

PROPS = {}

PROPS['C17'] = {
    'assumptions': [
        'contiguous_index_queue<uint32_t>: sequential query at full 32-bit width (arbitrary a<=b, 4 pops); concurrent queries with a in [0,4], length in [0,4].',
        'concurrentqueue.hpp (moodycamel) is outside the claim (DESIGN 7/C17).',
    ],
    'queries': [
        dict(name='ciq_seq_fullwidth', kernel='C17_index_queue.cpp', prefix='seq_', mode='seq', unwind=6),
        dict(name='ciq_conc_T2_K2', kernel='C17_index_queue.cpp', prefix='conc_', mode='res', lower_defs=['-DNTHREADS=2'], R=3, BMAX=10, unwind=4, covers=[0]),
        dict(name='ciq_conc_T3_K2', kernel='C17_index_queue.cpp', prefix='conc_', mode='res', lower_defs=['-DNTHREADS=3'], R=3, BMAX=10, unwind=4, tiers=('thorough',), timeout=3000),
    ],
}

PROPS['C06'] = {
    'assumptions': [
        'Real mutex.cpp, detail/condition_variable.cpp, spinlock.hpp, agent_ref.cpp, error_code.cpp; agent = stub implementation of the public agent_base interface '
        '(suspend blocks until a resume token is deposited; yield/yield_k = one polling step; sleep_until returns when resumed or, nondeterministically, on deadline).',
        'Task identity = one distinct non-null thread id per harness thread (migration between workers is invisible at this layer).',
        'Error back end (throw_exception/throws_if) stubbed: error code recorded, verif_pika_error thrown in throws mode, no message formatting.',
    ],
    'queries': [
        dict(name='mutex_T2_S2', kernel='C06_mutex.cpp', prefix='mx_', mode='res', lower_defs=['-DNTHREADS=2'], shim='shim_sync', inline=20000, R=3, BMAX=60, unwind=3, covers=[0], timeout=1500),
        dict(name='spinlock_T2_S2', kernel='C06_spinlock.cpp', prefix='spl_', mode='res', lower_defs=['-DNTHREADS=2', '-DNSEC=2'], inline=20000, R=3, BMAX=60, unwind=3, covers=[0], timeout=2400),
        dict(name='spinlock_T3_S1', kernel='C06_spinlock.cpp', prefix='spl_', mode='res', lower_defs=['-DNTHREADS=3', '-DNSEC=1'], inline=20000, R=4, BMAX=60, unwind=3, covers=[0], timeout=7000, tiers=('thorough',)),
        dict(name='spinlock_lowlevel_T2_S2', kernel='C06_spinlock.cpp', prefix='spl_', mode='res', lower_defs=['-DNTHREADS=2', '-DNSEC=2', '-DLOWLEVEL'], inline=20000, R=3, BMAX=60, unwind=3, covers=[0], timeout=2400),
        dict(name='recursive_mutex_T2', kernel='C06_recursive.cpp', prefix='rmx_', mode='res', inline=20000, R=3, BMAX=60, unwind=3, covers=[0], timeout=2400),
        dict(name='mutex_misuse', kernel='C06_mutex.cpp', prefix='misuse_', mode='seq', lower_defs=['-DNTHREADS=2'], shim='shim_sync', inline=20000, unwind=6),
        dict(name='mutex_T3_S1', kernel='C06_mutex.cpp', prefix='mx_', mode='res', lower_defs=['-DNTHREADS=3', '-DNSEC=1'], shim='shim_sync', inline=20000, R=3, BMAX=60, unwind=3, tiers=('thorough',), timeout=6000),
    ],
}

SYNC_ASSUMPTIONS = [
    'Agent = stub implementation of the public agent_base interface: suspend blocks until a resume token is deposited; yield/yield_k/spin_k = one polling step; '
    'sleep_until returns when resumed or, nondeterministically and monotonically, because the deadline passed (time is symbolic).',
    'pika::concurrency::detail::spinlock used as the INTERNAL lock of the primitive is replaced by its contract (acquire = one visible, blocking operation; release = plain store); '
    'the real spinlock.hpp is verified separately under C06 (assume-guarantee layering).',
    'Task identity: one distinct non-null thread id per harness thread; error back end (throw_exception/throws_if) and PIKA_ASSERT message formatting stubbed (codes and control flow kept).',
    'IR is lowered with a high inlining threshold (-mllvm -inline-threshold=20000), which changes no semantics but removes ABI-level pointer/integer coercions.',
]
PROPS['C06']['assumptions'] = SYNC_ASSUMPTIONS

PROPS['C08'] = {
    'assumptions': SYNC_ASSUMPTIONS + ['counting_semaphore<>: initial count in [0,2], release(n) with n in [1,2], 2 operations per thread.'],
    'queries': [
        dict(name='sem_release2_two_waiters', kernel='C08_semaphore.cpp', prefix='csem3_', mode='res', lower_defs=['-DNTHREADS=2'], shim='shim_sync', inline=20000, R=3, BMAX=60, unwind=3, covers=[0], timeout=2400),
        dict(name='sliding_T2', kernel='C08_sliding.cpp', prefix='sld_', mode='res', lower_defs=['-DNTHREADS=2'], shim='shim_sync', inline=20000, R=3, BMAX=60, unwind=3, covers=[0], timeout=2400),
        dict(name='sem_T2_K2', kernel='C08_semaphore.cpp', prefix='csem_', mode='res', lower_defs=['-DNTHREADS=2'], shim='shim_sync', inline=20000, R=3, BMAX=60, unwind=3,
             unwindset=['csem_final__step.0:14'], covers=[0], timeout=2400),
    ],
}

PROPS['C14'] = {
    'assumptions': SYNC_ASSUMPTIONS + [
        'Histories: <= HIST_K operations over 3 stop_source slots, 2 stop_token slots, <= 3 stop states; reference model = per-state count of live sources + stop flag.',
        'Concurrent: two request_stop callers and one thread constructing/destroying a stop_callback whose body yields; thread identities (pika task / plain OS thread) symbolic.',
    ],
    'queries': [
        dict(name='stop_hist_k4', kernel='C14_stop_token.cpp', prefix='hist_', mode='seq', shim='shim_sync', inline=20000, unwind=6, lower_defs=['-DHIST_K=4'], covers=[0], timeout=2400),
        dict(name='stop_two_callbacks', kernel='C14_stop_token.cpp', prefix='cc2_', mode='res', shim='shim_sync', inline=20000, R=3, BMAX=60, unwind=3, covers=[0], timeout=2400),
        dict(name='stop_race_kept_T3', kernel='C14_stop_token.cpp', prefix='cck_', mode='res', shim='shim_sync', inline=20000, R=3, BMAX=60, unwind=3, covers=[0], timeout=2400),
        dict(name='stop_two_registrars', kernel='C14_stop_token.cpp', prefix='cc3_', mode='res', shim='shim_sync', inline=20000, R=3, BMAX=60, unwind=3, covers=[0], timeout=2400),
        dict(name='stop_race_T3', kernel='C14_stop_token.cpp', prefix='cc_', mode='res', shim='shim_sync', inline=20000, R=3, BMAX=60, unwind=3, covers=[0], timeout=2400),
    ],
}

PROPS['C11'] = {
    'assumptions': [
        'Scenario B: the real thread_pool_bulk_sender/operation_state: connect, start, set_value, task_function (drain left, steal right, do_work_chunk, finish) over a stand-in pool (env_pool.hpp) that records spawned tasks; '
        'the harness runs the spawned worker tasks sequentially in an arbitrary order after start() (worker interleavings and the exception channel are not covered); n <= NMAX, W constant per query.',
        'Scenario A (arithmetic): real bulk_receiver::get_chunk_size, init_queue and the index queue; the operation state is built field by field (no thread pool); the three lines of '
        'set_value combining them are repeated in the kernel. W in [1,64] symbolic for get_chunk_size; one query per constant W for the tiling (division by a constant).',
        'Termination of get_chunk_size is an obligation (unwinding assertion at 34 iterations: the chunk size doubles, so more than 33 iterations means it wrapped to 0 and the loop never ends).',
    ],
    'queries': [
        dict(name='chunk_u32_all', kernel='C11_bulk.cpp', prefix='chunk_', mode='seq', inline=20000, unwind=34, lower_defs=['-DSHAPE=std::uint32_t'], params=[0, 0], covers=[0], unwind_obligation=True),
        dict(name='chunk_u32_le2p31', kernel='C11_bulk.cpp', prefix='chunk_', mode='seq', inline=20000, unwind=34, lower_defs=['-DSHAPE=std::uint32_t'], params=[0, 1], covers=[0], unwind_obligation=True),
        dict(name='chunk_u64_all', kernel='C11_bulk.cpp', prefix='chunk_', mode='seq', inline=20000, unwind=34, lower_defs=['-DSHAPE=std::uint64_t'], params=[0, 0], unwind_obligation=True),
        dict(name='chunk_u64_le2p31', kernel='C11_bulk.cpp', prefix='chunk_', mode='seq', inline=20000, unwind=34, lower_defs=['-DSHAPE=std::uint64_t'], params=[0, 1], unwind_obligation=True),
        dict(name='chunk_i32_le2p31', kernel='C11_bulk.cpp', prefix='chunk_', mode='seq', inline=20000, unwind=34, lower_defs=['-DSHAPE=std::int32_t'], params=[0, 1], unwind_obligation=True),
        dict(name='bulk_run_W1_n20', kernel='C11_bulk_run.cpp', prefix='run_', mode='seq', inline=20000, unwind=10, lower_defs=['-DNMAX=20'], params=[1], covers=[0], timeout=1800),
        dict(name='bulk_conc_W2_n3', kernel='C11_bulk_run.cpp', prefix='brc_', mode='res', inline=20000, R=3, BMAX=60, unwind=6, lower_defs=['-DNMAX=3', '-DCONC', '-DNTHREADS=2'], covers=[0], timeout=3000, mem_gb=20, tiers=('thorough',), unwind_rules=[(r'create_work', 26)]),
        dict(name='bulk_run_W2_n24', kernel='C11_bulk_run.cpp', prefix='run_', mode='seq', inline=20000, unwind=12, lower_defs=['-DNMAX=24'], params=[2], covers=[0], timeout=3600, tiers=('thorough',), unwind_rules=[(r'create_work', 26)]),
    ] + [
        dict(name='tile_u32_W%d' % w, kernel='C11_bulk.cpp', prefix='tile_', mode='seq', inline=20000, unwind=34, lower_defs=['-DSHAPE=std::uint32_t'], params=[w], covers=[0],
             partial_loops_assume=True, timeout=1200, tiers=('quick', 'thorough') if w in (1, 2, 3) else ('thorough',)) for w in (1, 2, 3, 4, 5, 7, 8, 16)
    ],
}

# ~condition_variable() with a non-empty queue (a documented precondition violation) calls abort_all<no_mutex>: kept out of line and cut,
# i.e. replaced by an assertion that it is never reached (its intrusive-list walk over every frame costs CBMC minutes per call site)
CV_ABORT_ALL = '_ZN4pika6detail18condition_variable9abort_allINS_8no_mutexE'
PROPS['C07'] = {
    'assumptions': SYNC_ASSUMPTIONS + ['User lock: std::unique_lock over the contract spinlock (quick) and over the real pika::mutex (thorough); waiters use the predicate-loop idiom for plain waits.'],
    'queries': [
        dict(name='cv_notify_W1', kernel='C07_condvar.cpp', prefix='cvn_', mode='res', lower_defs=['-DNWAITERS=1'], shim='shim_sync', inline=20000, R=3, BMAX=60, unwind=3, covers=[0], timeout=2400),
        dict(name='cv_timed', kernel='C07_condvar.cpp', prefix='cvt_', mode='res', lower_defs=['-DNWAITERS=1'], shim='shim_sync', inline=20000, R=3, BMAX=60, unwind=3, covers=[0], timeout=2400),
        dict(name='cv_stop_token', kernel='C07_condvar.cpp', prefix='cvs_', mode='res', lower_defs=['-DNWAITERS=1'], shim='shim_sync', inline=20000, R=3, BMAX=60, unwind=3, covers=[0], timeout=3600,
             noinline=[CV_ABORT_ALL + '.*'], cut=[CV_ABORT_ALL], tiers=('thorough',)),
        dict(name='cv_notify_W2', kernel='C07_condvar.cpp', prefix='cvn_', mode='res', lower_defs=['-DNWAITERS=2'], shim='shim_sync', inline=20000, R=3, BMAX=60, unwind=4, covers=[0], timeout=6000, tiers=('thorough',)),
        dict(name='cv_notify_W1_pikamutex', kernel='C07_condvar.cpp', prefix='cvn_', mode='res', lower_defs=['-DNWAITERS=1', '-DUSE_PIKA_MUTEX'], shim='shim_sync', inline=20000, R=3, BMAX=60, unwind=3, covers=[0], timeout=6000, tiers=('thorough',)),
    ],
}

def _c09(name, prefix, npart=2, tiers=('quick', 'thorough'), R=3, unwind=3, timeout=2400, defs=(), mem_gb=14):
    return dict(name=name, kernel='C09_latch_barrier.cpp', prefix=prefix, mode='res', lower_defs=['-DNPART=%d' % npart] + list(defs), shim='shim_sync', inline=20000, R=R, BMAX=60,
                unwind=unwind, covers=[0], timeout=timeout, tiers=tiers, mem_gb=mem_gb)

PROPS['C09'] = {
    'assumptions': SYNC_ASSUMPTIONS + ['latch/barrier with 2 (quick) or 3 (thorough) participants; barrier: 2 phases, starting ticket of the tournament tree (hash of the thread id) arbitrary; '
                                       'arrive_and_drop: one of two participants drops in phase 0; the busy_wait_timeout path of barrier::wait is outside the claim.'],
    'queries': [
        _c09('latch_P2', 'lat_'), _c09('barrier_P2', 'bar_', unwind=4), _c09('event_T3', 'evt_'), _c09('call_once_T2', 'onc_'),
        _c09('barrier_P3_1phase', 'bar_', 3, unwind=4, timeout=3000, defs=['-DNPHASE=1']),
        _c09('barrier_drop_P2', 'bard_', tiers=('thorough',), unwind=4, timeout=3600), _c09('call_once_throwing_T2', 'oncx_', tiers=('thorough',), unwind=4, timeout=3600),
        _c09('latch_P3', 'lat_', 3, ('thorough',), timeout=7000), _c09('barrier_P3', 'bar_', 3, ('thorough',), R=4, unwind=5, timeout=3600, mem_gb=40),
    ],
}

PROPS['C18'] = {
    'assumptions': [
        'function<int(int)> and unique_function<int(int)> over two payload classes (inline buffer / heap); histories of HIST_K operations over 3 wrapper slots; payload ids in [1,3].',
        'any_sender<int> / unique_any_sender<int> in the default configuration (small-buffer storage disabled upstream); wrapped test senders with symbolic channel complete inline; histories of 3 (quick) / 4 (thorough) operations.',
    ],
    'queries': [
        dict(name='function_hist_k4', kernel='C18_function.cpp', prefix='fn_', mode='seq', inline=20000, unwind=26, lower_defs=['-DHIST_K=4'], covers=[0], timeout=2400),
        dict(name='unique_function_hist_k4', kernel='C18_function.cpp', prefix='fn_', mode='seq', inline=20000, unwind=26, lower_defs=['-DHIST_K=4', '-DUNIQUE'], covers=[0], timeout=2400),
        dict(name='any_sender_hist_k3', kernel='C18_any_sender.cpp', prefix='as_', mode='seq', inline=20000, unwind=26, lower_defs=['-DHIST_K=3'], covers=[0], timeout=3000),
        dict(name='unique_any_sender_hist_k3', kernel='C18_any_sender.cpp', prefix='as_', mode='seq', inline=20000, unwind=26, lower_defs=['-DHIST_K=3', '-DUNIQUE'], covers=[0], timeout=3000),
        dict(name='any_sender_hist_k4', kernel='C18_any_sender.cpp', prefix='as_', mode='seq', inline=20000, unwind=26, lower_defs=['-DHIST_K=4'], covers=[0], timeout=5400, tiers=('thorough',)),
        dict(name='unique_any_sender_hist_k4', kernel='C18_any_sender.cpp', prefix='as_', mode='seq', inline=20000, unwind=26, lower_defs=['-DHIST_K=4', '-DUNIQUE'], covers=[0], timeout=5400, tiers=('thorough',)),
        dict(name='function_hist_k5', kernel='C18_function.cpp', prefix='fn_', mode='seq', inline=20000, unwind=26, lower_defs=['-DHIST_K=5'], covers=[0], timeout=10000, tiers=('thorough',)),
    ],
}

PROPS['C12'] = {
    'assumptions': [
        'Only the recycling part (K3) of the property is covered: real thread_data.cpp (rebind_base, exit callbacks, interruption flags), thread_data_stackless::rebind and the stackless coroutine; '
        'the first incarnation is driven through an arbitrary history of the public thread_data API and runs to completion before it is rebound.',
        'Context switch assembly, stack allocation and stack-size selection (K1/K2) are NOT covered by any check.',
    ],
    'queries': [
        dict(name='recycle_stackless', kernel='C12_recycle.cpp', prefix='rec_', mode='seq', inline=20000, unwind=26, covers=[0], timeout=1800),
    ],
}

THREAD_ASSUMPTIONS = [
    'Real thread.cpp, thread_data.cpp (exit callbacks, interruption), thread_data_stackless, thread_helpers.cpp; the coroutine switch is replaced by its contract '
    '(verif_self implements the abstract coroutine_self: yield(suspended) blocks until resumed); set_thread_state (wake-up path) is the contract "a resume issued after the task asked to be suspended makes that yield return".',
    'Stand-in thread pool (env_pool.hpp) creates real stackless task objects; a harness thread plays the worker that runs the new task (a stackless task runs its whole body in one phase).',
    'pika::detail::spinlock back-off = one polling step; spinlock_pool has one lock; internal concurrency::detail::spinlock by contract.',
]
PROPS['C13'] = {
    'assumptions': THREAD_ASSUMPTIONS + ['jthread, interruption delivery and detach are not covered yet.'],
    'queries': [
        dict(name='join_vs_exit', kernel='C13_thread_join.cpp', prefix='jn_', mode='res', shim='shim_sync', inline=20000, R=3, BMAX=80, unwind=3, covers=[0], timeout=3600, mem_gb=20,
             cut=['_ZN4pika7threads6detail11thread_data14destroy_threadEv'], unwind_rules=[(r'resume_thread', 6)]),
    ],
}

# ~sender() of an access sender that was never connected calls start_detached(std::move(*this)); the scenarios below connect every sender,
# so the start_detached operation-state holder is kept out of line and cut (asserted unreachable) - it doubled the code and its untyped
# allocation polluted CBMC's points-to sets (byte-level updates of vtables/typeinfo objects, > 26 GB during SSA conversion)
SD_HOLDER = '_ZN4pika21start_detached_detail22operation_state_holder'
PROPS['C04'] = {
    'assumptions': SYNC_ASSUMPTIONS[:1] + [
        'Real async_rw_mutex.hpp (async_rw_mutex<void>): shared states, op_state_head CAS list, done(), libstdc++ shared_ptr control blocks with atomic reference counts (as emitted into the IR).',
        'NACC accesses requested in program order with symbolic kinds; each access is started by its own thread, which waits for the grant and then releases the wrapper; '
        'dropped-unstarted senders, wrapper copies and the wrapped value (async_rw_mutex<T>) are not covered yet.',
    ],
    'queries': [
        dict(name='rw_two_accesses', kernel='C04_rw_mutex.cpp', prefix='rw_', mode='res', lower_defs=['-DNACC=2'], shim='shim_sync', inline=20000, R=3, BMAX=100, unwind=3, covers=[0], timeout=3000, mem_gb=28,
             unwind_rules=[(r'^verif_rt_strcmp', 64)], noinline=[SD_HOLDER + 'I.*EC[12].*'], cut=[SD_HOLDER]),
        dict(name='rw_three_accesses', kernel='C04_rw_mutex.cpp', prefix='rw_', mode='res', lower_defs=['-DNACC=3'], shim='shim_sync', inline=20000, R=3, BMAX=100, unwind=4, covers=[0], timeout=10000, mem_gb=40,
             unwind_rules=[(r'^verif_rt_strcmp', 64)], tiers=('thorough',), noinline=[SD_HOLDER + 'I.*EC[12].*'], cut=[SD_HOLDER]),
    ],
}

def _c03(name, prefix, unwind=4, timeout=1800, tiers=('quick', 'thorough')):
    return dict(name=name, kernel='C03_adaptors.cpp', prefix=prefix, mode='seq', shim='shim_sync', inline=20000, unwind=unwind, covers=[0], timeout=timeout, tiers=tiers)

PROPS['C03'] = {
    'assumptions': [
        'Each adaptor (then, let_value, let_error, when_all, split, ensure_started, drop_value, drop_operation_state, unpack, split_tuple) is the real header code instantiated on a test leaf sender that completes INLINE in start() on a symbolic '
        'channel (value v / error e / stopped) and connected to a recording receiver; the oracle is the completion the composition denotes (differential). Exceptions are modelled (DESIGN 4.4).',
        'Not covered: completions arriving later from another thread, concurrent consumers, compositions deeper than 1, when_all_vector, schedule_from/continues_on (placement part: C10), require_started, '
        'start_detached, sync_wait, any_sender; object-lifetime ledger.',
    ],
    # split / ensure_started keep their continuations in type-erased unique_function objects (pointers stored in byte buffers): under a
    # symbolic schedule CBMC's points-to sets for them degrade and symex needs tens of minutes and > 8 GB -> thorough tier only
    # the operation states of these scenarios are never destroyed, so the shared state of split / ensure_started never loses its last
    # reference: its destructor is cut (asserted unreachable) - CBMC otherwise executes it symbolically at every intrusive_ptr release
    'queries': [dict(name=n, kernel='C03_concurrent.cpp', prefix=pf, mode='res', shim='shim_sync', inline=20000, R=3, BMAX=60, unwind=4, covers=[0], timeout=to, mem_gb=mem, tiers=tiers,
                     cut=['_ZNSt16allocator_traitsISaIN4pika12split_detail12shared_stateI5dleafSaIiEEEEE7destroy',
                          '_ZNSt16allocator_traitsISaIN4pika21ensure_started_detail21ensure_started_senderI5dleafSaIiEE12shared_stateEEE7destroy'])
                for n, pf, to, mem, tiers in [('when_all_two_threads', 'wac_', 2400, 14, ('quick', 'thorough')), ('split_concurrent_consumers', 'spc_', 3600, 28, ('thorough',)),
                                              ('ensure_started_concurrent', 'esc_', 3600, 28, ('thorough',))]] +
               [_c03('then_inline', 'then_'), _c03('let_value_inline', 'let_'), _c03('let_error_inline', 'lete_'), _c03('when_all_inline', 'wall_'), _c03('split_two_consumers_inline', 'split_'),
                _c03('ensure_started_inline', 'ens_'), _c03('drop_value_inline', 'drop_'), _c03('drop_operation_state_inline', 'dos_'), _c03('unpack_inline', 'unp_'), _c03('split_tuple_inline', 'spt_'), _c03('when_all_throwing_store', 'wallt_')],
}

PROPS['C10'] = {
    'assumptions': [
        'Reduced claim (scheduler/pool level only): real thread_pool_scheduler::execute, its schedule-sender operation state, schedule_from/continues_on and then; two stand-in pools (env_pool.hpp) record '
        'on which pool each task was registered; "runs on a worker of that pool" is observed as "runs inside a task that was registered on that pool". Identity/exit callbacks of the worker task are environment.',
        'NOT covered: worker-hint placement under the static policies (queue selection in the *_queue_scheduler classes), std_thread_scheduler, bulk placement, resource-partitioner layouts, OS-level thread identity.',
    ],
    'queries': [dict(name='placement_two_pools', kernel='C10_placement.cpp', prefix='plc_', mode='seq', inline=20000, unwind=26, covers=[0], timeout=1800)],
}

def _c15(n, m, sh, shape, tiers, cap=8):
    return dict(name='%s_%s' % (n, sh), kernel='C15_affinity.cpp', prefix='aff_', mode='seq', inline=20000, unwind=cap + 2, lower_defs=['-DPIKA_HAVE_MAX_CPU_COUNT=64', '-DVERIF_VEC_CAP=%d' % cap],
                params=[m] + list(shape), covers=[0], unwind_obligation=True, timeout=6000, tiers=tiers)


_modes = {'compact': 1, 'scatter': 2, 'balanced': 4, 'numa_balanced': 8}
PROPS['C15'] = {
    'assumptions': [
        'Real parse_affinity_options.cpp decode_*_distribution + check_num_threads; hwloc is the environment: the topology member functions used by the decoder are defined over a symbolic machine '
        '(core index modulo #cores, PU index modulo arity, PU numbering consecutive). Mask representation: the 64-bit configuration (PIKA_HAVE_MAX_CPU_COUNT=64).',
        'Machine SHAPE is a parameter of each query (sockets x cores/socket x PUs/core, also asymmetric); process mask (any non-empty subset), thread count in [1,#PUs+1] and use-of-mask are symbolic; used_cores = 0; error mode throws.',
        'std::vector is replaced, for the body of parse_affinity_options.cpp only, by a fixed-capacity stand-in with the same interface (kernels/env_fixed_vector.hpp, capacity 8; exceeding it or indexing out of range is an assertion failure).',
        'Not covered: affinity_data / resource-partitioner pool assignment, the worker applying the mask through hwloc, binding "none".',
    ],
    'queries': [_c15(n, m, 's2c2p2', (2, 2, 2), ('thorough',), cap=10) for n, m in _modes.items()] +    # 8 PUs, up to 9 threads
               [_c15(n, m, sh, (S, C, P), tiers) for n, m in _modes.items() for sh, (S, C, P), tiers in [
        ('s2c1p2', (2, 1, 2), ('quick', 'thorough')),      # 2 sockets x 1 core x 2 PUs (SMT, multi-socket)
        ('s2c21p1', (2, 21, 1), ('quick', 'thorough')),    # asymmetric: socket 0 has 2 cores, socket 1 has 1
        ('s2c2p1', (2, 2, 1), ('thorough',)),
        ('s1c2p2', (1, 2, 2), ('thorough',)),
        ('s1c2p21', (1, 2, 21), ('thorough',)),            # asymmetric SMT: core 0 has 2 PUs, core 1 has 1
        ('s2c1p12', (2, 1, 12), ('thorough',)),
        ('s3c1p1', (3, 1, 1), ('thorough',)),             # three sockets: per-socket rounding of the thread share
    ]],
}
