#include "ll2c.hpp"

namespace {

bool isAgg(Type* T) { return T->isStructTy() || T->isArrayTy() || T->isVectorTy(); }

std::string cstringOf(Value* V)
{
    V = V->stripPointerCasts();
    if (auto* GE = dyn_cast<GEPOperator>(V)) V = GE->getPointerOperand()->stripPointerCasts();
    if (auto* G = dyn_cast<GlobalVariable>(V))
        if (G->hasInitializer())
            if (auto* CD = dyn_cast<ConstantDataArray>(G->getInitializer()))
                if (CD->isCString())
                {
                    std::string r;
                    for (char c : CD->getAsCString()) r += (c == '"' || c == '\\') ? '_' : c;
                    return r;
                }
    return "?";
}

struct FnEmit
{
    Ctx& C;
    Function& F;
    bool res;
    std::string fname;
    DenseMap<Value*, std::string> names;
    DenseMap<BasicBlock*, int> bbId;
    std::vector<std::pair<std::string, std::string>> decls;     // frame (res) or local (seq): type, declarator
    std::vector<std::pair<std::string, std::string>> sdecls;    // res mode: static per-slot storage of allocas
    std::vector<std::pair<std::string, std::string>> ldecls;    // res mode: plain C locals (not live across yields)
    std::string body;
    raw_string_ostream os;
    int nextY = 1;
    int nVisible = 0;
    int tmpCnt = 0;
    DenseMap<Value*, std::string> inl;    // values re-materialised at every use (addresses of allocas)
    std::set<Value*> frameVals;           // res mode: values live across a yield point

    FnEmit(Ctx& c, Function& f)
      : C(c)
      , F(f)
      , res(c.res && c.resumable.count(&f))
      , os(body)
    {
        fname = C.gname(&F);
    }

    std::string ref(const std::string& n) { return res ? "fr->" + n : n; }
    std::string val(Value* V)
    {
        if (auto* K = dyn_cast<Constant>(V)) return C.cexpr(K);
        auto il = inl.find(V);
        if (il != inl.end())
        {
            if (!il->second.empty()) return il->second;
            auto* I = cast<Instruction>(V);
            return "(" + C.pureExpr(I->getOpcode(), I, valf()) + ")";
        }
        auto it = names.find(V);
        if (it == names.end())
        {
            std::string s;
            raw_string_ostream o(s);
            V->print(o);
            die("unnamed value " + o.str());
        }
        return (res && frameVals.count(V)) ? "fr->" + it->second : it->second;
    }
    std::function<std::string(Value*)> valf()
    {
        return [this](Value* V) { return val(V); };
    }
    void decl(Type* T, const std::string& n) { decls.push_back({C.ty(T), n}); }
    void ldecl(Type* T, const std::string& n) { (res ? ldecls : decls).push_back({C.ty(T), n}); }
    bool isYieldPoint(Instruction& I)
    {
        if (isVisibleInst(I)) return true;
        if (auto* CB = dyn_cast<CallBase>(&I))
        {
            if (isa<InlineAsm>(CB->getCalledOperand())) return false;
            Function* G = dyn_cast<Function>(CB->getCalledOperand()->stripPointerCasts());
            if (G && G->getFunctionType() != CB->getFunctionType()) G = nullptr;
            if (G) return C.resumable.count(G) > 0;
            for (Function* H : C.indirectTargets(CB))
                if (C.resumable.count(H)) return true;
        }
        return false;
    }
    void computeInline()
    {
        for (Instruction& I : instructions(F))
        {
            if (auto* A = dyn_cast<AllocaInst>(&I))
            {
                auto* N = dyn_cast<ConstantInt>(A->getArraySize());
                if (!N) die("dynamic alloca in " + F.getName().str());
                std::string m = "m_" + names[&I];
                if (res)
                {
                    // one static object per alloca and slot: byte-level writes (memcpy into a std::string buffer ...)
                    // must not touch the frame's own fields, or CBMC loses the points-to sets of everything in it
                    std::string g = "FRA_" + fname + "_" + names[&I];
                    if (N->isOne())
                    {
                        sdecls.push_back({C.ty(A->getAllocatedType()), g + "[VERIF_NSLOT]"});
                        inl[&I] = "(&" + g + "[verif_cur])";
                    }
                    else
                    {
                        sdecls.push_back({C.ty(A->getAllocatedType()), g + "[VERIF_NSLOT][" + std::to_string(N->getZExtValue()) + "]"});
                        inl[&I] = "(&" + g + "[verif_cur][0])";
                    }
                }
                else if (N->isOne())
                {
                    decl(A->getAllocatedType(), m);
                    inl[&I] = "(&" + ref(m) + ")";
                }
                else
                {
                    decls.push_back({C.ty(A->getAllocatedType()), m + "[" + std::to_string(N->getZExtValue()) + "]"});
                    inl[&I] = "(&" + ref(m) + "[0])";
                }
            }
        }
        // casts / constant-index GEPs of inlined addresses (instructions are visited in dominance-compatible
        // order only within reverse post order; iterate to a fixpoint instead)
        bool ch = true;
        while (ch)
        {
            ch = false;
            for (Instruction& I : instructions(F))
            {
                if (inl.count(&I)) continue;
                bool ok = false;
                if (auto* BC = dyn_cast<BitCastInst>(&I)) ok = inl.count(BC->getOperand(0)) && I.getType()->isPointerTy();
                else if (auto* G = dyn_cast<GetElementPtrInst>(&I))
                    ok = inl.count(G->getPointerOperand()) && G->hasAllConstantIndices() && !I.getType()->isVectorTy();
                if (ok)
                {
                    inl[&I] = C.pureExpr(I.getOpcode(), &I, valf());
                    ch = true;
                }
            }
        }
    }
    // single-use pure instructions are folded into their user's expression (same block): far fewer assigned
    // symbols, hence far fewer phi nodes when symex joins the many paths of a resumable function
    void computeExprInline()
    {
        if (!C.exprInline) return;
        for (BasicBlock& BB : F)
            for (Instruction& I : BB)
            {
                if (inl.count(&I) || I.getType()->isVoidTy() || !I.hasOneUse()) continue;
                unsigned opc = I.getOpcode();
                bool pure = I.isBinaryOp() || I.isCast() || isa<GetElementPtrInst>(I) || isa<ICmpInst>(I) || isa<SelectInst>(I);
                if (!pure) continue;
                if (opc == Instruction::UDiv || opc == Instruction::SDiv || opc == Instruction::URem || opc == Instruction::SRem) continue;
                if (I.getType()->isVectorTy() || I.getType()->isFloatingPointTy()) continue;
                if (isa<IntToPtrInst>(I) && !pshadow(I.getOperand(0)).empty()) continue;    // handled with its pointer twin
                auto* U = dyn_cast<Instruction>(*I.user_begin());
                if (!U || U->getParent() != &BB || isa<PHINode>(U)) continue;
                if (isa<LandingPadInst>(U) || isa<InvokeInst>(U)) continue;
                if (isPtrLoad(&I)) continue;
                // users that need a named operand
                if (auto* ST = dyn_cast<StoreInst>(U))
                    if (ST->getValueOperand() == &I && isa<PtrToIntInst>(I)) continue;    // pointer-typed store twin reads the operand itself
                if (isa<AtomicCmpXchgInst>(U) || isa<AtomicRMWInst>(U)) continue;
                inl[&I] = "";    // sentinel: the expression text is produced at each use (after the frame/local split is known)
            }
    }
    void computeFrameVals()
    {
        if (!res) return;
        for (Argument& A : F.args()) frameVals.insert(&A);
        // backward liveness over basic blocks
        std::map<BasicBlock*, std::set<Value*>> liveOut, liveIn;
        auto tracked = [&](Value* V) { return (isa<Instruction>(V) || isa<Argument>(V)) && !inl.count(V) && !V->getType()->isVoidTy(); };
        // values read when V is used: V itself, or (if V is re-materialised at its use) the leaves of its expression
        std::function<void(Value*, std::set<Value*>&)> leaves = [&](Value* V, std::set<Value*>& out) {
            if (tracked(V))
            {
                out.insert(V);
                return;
            }
            if (auto* I = dyn_cast<Instruction>(V))
                if (inl.count(I))
                    for (Value* Op : I->operands()) leaves(Op, out);
        };
        // uses through inlined values refer to nothing live (allocas are frame storage)
        bool ch = true;
        while (ch)
        {
            ch = false;
            for (auto it = F.getBasicBlockList().rbegin(); it != F.getBasicBlockList().rend(); ++it)
            {
                BasicBlock* BB = &*it;
                std::set<Value*> live;
                for (BasicBlock* S : successors(BB))
                {
                    for (Value* V : liveIn[S]) live.insert(V);
                    for (PHINode& P : S->phis())
                    {
                        Value* V = P.getIncomingValueForBlock(BB);
                        leaves(V, live);
                    }
                }
                liveOut[BB] = live;
                for (auto ii = BB->rbegin(); ii != BB->rend(); ++ii)
                {
                    Instruction& I = *ii;
                    live.erase(&I);
                    if (isa<PHINode>(I) || inl.count(&I)) continue;
                    for (Value* Op : I.operands()) leaves(Op, live);
                }
                // phis are defined at block entry: not live-in
                for (PHINode& P : BB->phis()) live.erase(&P);
                if (live != liveIn[BB])
                {
                    liveIn[BB] = live;
                    ch = true;
                }
            }
        }
        for (BasicBlock& BB : F)
        {
            std::set<Value*> live = liveOut[&BB];
            for (auto ii = BB.rbegin(); ii != BB.rend(); ++ii)
            {
                Instruction& I = *ii;
                if (isYieldPoint(I))
                {
                    // everything live after the instruction (minus its own result) and its operands
                    for (Value* V : live)
                        if (V != &I) frameVals.insert(V);
                    for (Value* Op : I.operands()) leaves(Op, frameVals);
                    // results of yielding calls are written after resumption: keep them local unless live across a later yield
                }
                live.erase(&I);
                if (isa<PHINode>(I) || inl.count(&I)) continue;
                for (Value* Op : I.operands()) leaves(Op, live);
            }
        }
    }

    // ---- flat layout (res mode, -flat): every basic block (and every piece of a block after a yield point or an
    // exception check) is a guarded segment `if (e_X) { e_X = 0; ... }` laid out in reverse post order inside
    // `while (verif_again)`; edges set the enable flag of their target, a backward edge also sets verif_again.
    // Symex then joins the two sides of each guard immediately (cost linear in the code executed) instead of
    // joining every early return at the function end (quadratic in the number of yield points).  Natural loops
    // without any yield point are kept as ordinary goto loops inside one segment ("regions").
    bool flat() const { return res && C.flat; }
    std::map<BasicBlock*, int> pos;          // layout position of a block (region blocks: position of the region header)
    std::map<BasicBlock*, int> regionOf;     // block -> region id (yield-free natural loop), absent = none
    std::map<int, BasicBlock*> regionHead;
    std::vector<std::string> flagNames;
    int curPos = 0, curRegion = -1, xCnt = 0;
    std::string flatPrologue;
    std::string flagB(BasicBlock* B)
    {
        auto r = regionOf.find(B);
        BasicBlock* H = r == regionOf.end() ? B : regionHead[r->second];
        return "e_B" + std::to_string(bbId[H]);
    }
    std::string newFlag(const std::string& n)
    {
        flagNames.push_back(n);
        return n;
    }
    // statement(s) that end the current segment and open the continuation segment
    std::string contSeg()
    {
        std::string f = newFlag("e_X" + std::to_string(xCnt++));
        return "{ " + f + " = 1; } } if (" + f + ") { " + f + " = 0;";
    }
    std::string abortStmt()    // leave the function (return / exception propagation): nothing gets enabled
    {
        if (curRegion >= 0) return "{ fr->pc = 0; fr->active = 0; goto RE" + std::to_string(curRegion) + "; }";
        return "{ fr->pc = 0; fr->active = 0; }";
    }

    std::string retStmt(const std::string& v)
    {
        if (!res) return v.empty() ? "return;" : "return " + v + ";";
        if (flat()) return (v.empty() ? std::string() : "fr->ret = " + v + "; ") + abortStmt();
        return (v.empty() ? std::string() : "fr->ret = " + v + "; ") + (C.chain ? "fr->pc = 0; goto END;" : "fr->pc = 0; fr->active = 0; return 0;");
    }
    std::string excPropagate()
    {
        if (!res) return retStmt(C.zeroOf(F.getReturnType()));
        if (flat()) return abortStmt();
        return C.chain ? "{ fr->pc = 0; goto END; }" : "{ fr->pc = 0; fr->active = 0; return 0; }";
    }
    // ---- res mode layout: a chain of segments (block starts and yield points).  In seek mode (resuming:
    // verif_mode 1) and in yielded mode (verif_mode 2) control falls through the chain without executing
    // anything, so that symex joins paths again right away instead of at the function end (Lazy-CSeq style).
    int nSeg = 0;
    std::vector<std::string> segLabels;
    std::string nextTok() { return "@N" + std::to_string(nSeg - 1) + "@"; }
    void beginBlockSeg(const std::string& label)
    {
        if (flat()) return;    // handled by the flat layout driver
        segLabels.push_back(label);
        ++nSeg;
        os << " " << label << ": ;\n";
        // diagnosis aid: a one-iteration marker loop per block makes `cbmc --verbosity 9` print a line when symex reaches the block
        static bool markers = getenv("VERIF_MARKERS") != nullptr;
        if (markers) os << "  { int verif_mk = 0; while (verif_mk < 1) verif_mk++; }\n";
        if (res && C.chain) os << "  if (verif_mode) goto " << nextTok() << ";\n";
    }
    std::vector<std::pair<int, std::string>> resumeFlags;    // flat: pc value -> flag of the segment to re-enter
    int beginYieldSeg()
    {
        if (flat())
        {
            if (curRegion >= 0) die("internal: yield point inside a yield-free region");
            int k = nextY++;
            std::string f = newFlag("e_Y" + std::to_string(k));
            resumeFlags.push_back({k, f});
            os << "  " << f << " = 1; }\n  if (" << f << ") { " << f << " = 0;\n";
            return k;
        }
        int k = nextY++;
        std::string label = "Y" + std::to_string(k);
        segLabels.push_back(label);
        ++nSeg;
        if (C.chain)
            os << " " << label << ": if (verif_mode == 1 && fr->pc == " << k << ") verif_mode = 0;\n  if (verif_mode) goto " << nextTok() << ";\n";
        else
            os << " " << label << ": ;\n";
        return k;
    }
    std::string yieldRet(int k)
    {
        if (flat()) return "{ fr->pc = " + std::to_string(k) + "; verif_yielded = 1; } else " + contSeg();
        if (!C.chain) return "{ fr->pc = " + std::to_string(k) + "; return 1; }";
        return "{ fr->pc = " + std::to_string(k) + "; verif_mode = 2; goto " + nextTok() + "; }";
    }

    std::string edgeCopies(BasicBlock* from, BasicBlock* to)
    {
        std::string s;
        std::vector<PHINode*> phis;
        for (PHINode& P : to->phis()) phis.push_back(&P);
        if (phis.empty()) return s;
        if (phis.size() == 1)
            return val(phis[0]) + " = " + val(phis[0]->getIncomingValueForBlock(from)) + "; ";
        for (PHINode* P : phis) s += "t_" + names[P] + " = " + val(P->getIncomingValueForBlock(from)) + "; ";
        for (PHINode* P : phis) s += val(P) + " = t_" + names[P] + "; ";
        return s;
    }
    std::string gotoEdge(BasicBlock* from, BasicBlock* to)
    {
        if (flat())
        {
            auto rt = regionOf.find(to);
            if (curRegion >= 0 && rt != regionOf.end() && rt->second == curRegion)
                return "{ " + edgeCopies(from, to) + "goto B" + std::to_string(bbId[to]) + "; }";    // inside the region
            std::string s2 = "{ " + edgeCopies(from, to) + flagB(to) + " = 1; ";
            if (pos[to] <= curPos) s2 += "verif_again = 1; ";
            if (curRegion >= 0) s2 += "goto RE" + std::to_string(curRegion) + "; ";
            return s2 + "}";
        }
        return "{ " + edgeCopies(from, to) + "goto B" + std::to_string(bbId[to]) + "; }";
    }

    // ---- calls -------------------------------------------------------------------------
    std::string argCast(Value* A, bool generic)
    {
        std::string v = val(A);
        if (generic && A->getType()->isPointerTy()) return "(void*)" + v;
        return v;
    }

    // value converted to the parameter type of the actual target (pointer types may differ on
    // virtual / type-erased calls)
    std::string argFor(Function* G, unsigned i, Value* A)
    {
        Type* want = i < G->getFunctionType()->getNumParams() ? G->getFunctionType()->getParamType(i) : A->getType();
        if (want != A->getType() && want->isPointerTy()) return "((" + C.ty(want) + ")" + val(A) + ")";
        return val(A);
    }
    std::string retFrom(Function* G, CallBase& CB, const std::string& e)
    {
        if (G->getReturnType() != CB.getType() && CB.getType()->isPointerTy()) return "((" + C.ty(CB.getType()) + ")" + e + ")";
        return e;
    }

    // i64 values that really are pointers (clang lowers small struct copies and atomic<T*> to integer
    // loads/stores + inttoptr/ptrtoint): keep a pointer-typed twin so CBMC retains points-to information
    // the instruction whose result (an i64, or field 0 of a cmpxchg result) carries a pointer: loads, atomic
    // exchanges and compare-exchanges of pointer-sized integers that are converted back with inttoptr
    static bool hasIntToPtrUser(Value* V)
    {
        for (User* U : V->users())
        {
            if (isa<IntToPtrInst>(U)) return true;
            if (auto* P = dyn_cast<PHINode>(U))
                for (User* U2 : P->users())
                    if (isa<IntToPtrInst>(U2)) return true;
        }
        return false;
    }
    bool isPtrLoad(Value* V)
    {
        if (auto* L = dyn_cast<LoadInst>(V)) return L->getType()->isIntegerTy(64) && hasIntToPtrUser(L);
        if (auto* R = dyn_cast<AtomicRMWInst>(V))
            return R->getOperation() == AtomicRMWInst::Xchg && R->getType()->isIntegerTy(64) &&
                (hasIntToPtrUser(R) || isa<PtrToIntOperator>(R->getValOperand()));
        if (auto* X = dyn_cast<AtomicCmpXchgInst>(V))
        {
            if (!X->getCompareOperand()->getType()->isIntegerTy(64)) return false;
            if (isa<PtrToIntOperator>(X->getNewValOperand()) || isa<PtrToIntOperator>(X->getCompareOperand())) return true;
            for (User* U : X->users())
                if (auto* E = dyn_cast<ExtractValueInst>(U))
                    if (E->getIndices()[0] == 0 && hasIntToPtrUser(E)) return true;
            return false;
        }
        return false;
    }
    std::string pshadow(Value* V)
    {
        if (!V->getType()->isIntegerTy(64)) return "";
        if (auto* PI = dyn_cast<PtrToIntOperator>(V)) return "((u8*)" + val(PI->getPointerOperand()) + ")";
        if (auto* E = dyn_cast<ExtractValueInst>(V))
            if (auto* X = dyn_cast<AtomicCmpXchgInst>(E->getAggregateOperand()))
                if (E->getIndices()[0] == 0 && isPtrLoad(X))
                {
                    std::string n = names[X] + "_p";
                    return (res && frameVals.count(X)) ? "fr->" + n : n;
                }
        if (auto* CI = dyn_cast<ConstantInt>(V))
            if (CI->isZero()) return "((u8*)0)";
        if (isa<Instruction>(V) && !isa<ExtractValueInst>(V) && isPtrLoad(V))
        {
            std::string n = names[V] + "_p";
            return (res && frameVals.count(V)) ? "fr->" + n : n;
        }
        return "";
    }
    // value as a pointer (u8*) for a pointer-carrying store: shadow if known, else integer cast
    std::string asPtr(Value* V)
    {
        std::string p = pshadow(V);
        return p.empty() ? "((u8*)(uintptr_t)" + val(V) + ")" : p;
    }

    void visiblePrologue()
    {
        ++nVisible;
        if (!res) return;
        int k = beginYieldSeg();
        os << "  if (verif_preempt()) " << yieldRet(k) << "\n";
    }

    bool emitIntrinsicOrSpecial(CallBase& CB, Function* Callee)
    {
        StringRef n = Callee->getName();
        std::string lhs = CB.getType()->isVoidTy() ? "" : val(&CB) + " = ";
        auto a = [&](unsigned i) { return val(CB.getArgOperand(i)); };
        Type* T = CB.getType();
        if (n.startswith("llvm."))
        {
            switch (Callee->getIntrinsicID())
            {
            case Intrinsic::lifetime_start:
            case Intrinsic::lifetime_end:
            case Intrinsic::dbg_declare:
            case Intrinsic::dbg_value:
            case Intrinsic::dbg_label:
            case Intrinsic::assume:
            case Intrinsic::experimental_noalias_scope_decl:
            case Intrinsic::invariant_start:
            case Intrinsic::invariant_end:
            case Intrinsic::prefetch:
            case Intrinsic::stacksave:
            case Intrinsic::stackrestore:
            case Intrinsic::donothing:
                if (!T->isVoidTy()) os << "  " << lhs << C.zeroOf(T) << ";\n";
                return true;
            case Intrinsic::expect:
            case Intrinsic::expect_with_probability: os << "  " << lhs << a(0) << ";\n"; return true;
            case Intrinsic::is_constant: os << "  " << lhs << "0;\n"; return true;
            case Intrinsic::objectsize:
                os << "  " << lhs << (cast<ConstantInt>(CB.getArgOperand(1))->isZero() ? "(u64)-1" : "0") << ";\n";
                return true;
            case Intrinsic::memcpy:
            case Intrinsic::memmove:
            case Intrinsic::memset:
            {
                bool isSet = Callee->getIntrinsicID() == Intrinsic::memset;
                Value* D = CB.getArgOperand(0)->stripPointerCasts();
                Value* S = CB.getArgOperand(1);
                auto* L = dyn_cast<ConstantInt>(CB.getArgOperand(2));
                if (L && L->isZero()) return true;
                // typed whole-object copy when both sides are T* and size matches
                if (L)
                {
                    Type* DT = D->getType()->getPointerElementType();
                    if (DT->isSized() && !DT->isIntegerTy(8) && C.DL.getTypeStoreSize(DT) == L->getZExtValue() &&
                        C.DL.getTypeAllocSize(DT) == L->getZExtValue())
                    {
                        if (!isSet)
                        {
                            Value* S2 = S->stripPointerCasts();
                            if (S2->getType() == D->getType())
                            {
                                os << "  *" << val(D) << " = *" << val(S2) << ";\n";
                                return true;
                            }
                        }
                        else if (auto* V = dyn_cast<ConstantInt>(S); V && V->isZero())
                        {
                            os << "  *" << val(D) << " = " << C.zeroOf(DT) << ";\n";
                            return true;
                        }
                    }
                }
                // memset(&s.f_k, 0, L) over a run of whole fields (constructors zeroing several pointer members at once): typed
                // zeroing per field - a byte-level memset over pointer fields degrades CBMC's points-to sets for them
                if (isSet && L && !getenv("VERIF_NO_TYPED_MEMSET"))
                    if (auto* V = dyn_cast<ConstantInt>(S); V && V->isZero())
                        if (auto* G = dyn_cast<GEPOperator>(D); G && G->hasAllConstantIndices() && G->getNumIndices() >= 2)
                        {
                            // parent aggregate type of the last index
                            Type* cur = G->getSourceElementType();
                            auto it = G->idx_begin();
                            ++it;
                            Type* parent = nullptr;
                            unsigned lastIdx = 0;
                            for (; it != G->idx_end(); ++it)
                            {
                                parent = cur;
                                lastIdx = (unsigned) cast<ConstantInt>(*it)->getZExtValue();
                                if (auto* ST = dyn_cast<StructType>(cur)) cur = ST->getElementType(lastIdx);
                                else if (cur->isArrayTy())
                                    cur = cur->getArrayElementType();
                                else
                                {
                                    parent = nullptr;
                                    break;
                                }
                            }
                            auto* PS = parent ? dyn_cast<StructType>(parent) : nullptr;
                            std::string ge = C.gepExpr(G, [&](Value* X) { return val(X); });
                            std::string suffix = ".f" + std::to_string(lastIdx) + ")";
                            if (PS && !C.isPtrBuf(PS, lastIdx) && ge.size() > suffix.size() + 2 && ge.compare(0, 2, "(&") == 0 &&
                                ge.compare(ge.size() - suffix.size(), suffix.size(), suffix) == 0)
                            {
                                std::string prefix = ge.substr(2, ge.size() - 2 - suffix.size());    // lvalue of the parent struct
                                auto* SL = C.DL.getStructLayout(PS);
                                uint64_t base = SL->getElementOffset(lastIdx), remaining = L->getZExtValue();
                                unsigned j = lastIdx;
                                std::string out;
                                bool ok = true;
                                while (remaining > 0 && j < PS->getNumElements())
                                {
                                    Type* FT = PS->getElementType(j);
                                    uint64_t off = SL->getElementOffset(j) - base, sz = C.DL.getTypeAllocSize(FT);
                                    uint64_t covered = L->getZExtValue() - remaining;
                                    if (off != covered) { ok = (off > covered); if (!ok) break; remaining -= std::min(remaining, off - covered); if (!remaining) break; }    // padding
                                    if (sz == 0) { ++j; continue; }
                                    if (sz > remaining || C.isPtrBuf(PS, j)) break;
                                    out += "  " + prefix + ".f" + std::to_string(j) + " = " + C.zeroOf(FT) + ";\n";
                                    remaining -= sz;
                                    ++j;
                                }
                                if (ok && !out.empty() && !(remaining > 0 && j >= PS->getNumElements()))
                                {
                                    os << out;
                                    if (remaining > 0)
                                        os << "  verif_memset((void*)(&" << prefix << ".f" << j << "), 0, " << remaining << "ULL);\n";
                                    return true;
                                }
                            }
                        }
                if (isSet)
                    os << "  verif_memset((void*)" << a(0) << ", " << a(1) << ", " << a(2) << ");\n";
                else
                    os << "  verif_memcpy((void*)" << a(0) << ", (void*)" << a(1) << ", " << a(2) << ");\n";
                return true;
            }
            case Intrinsic::trap:
            case Intrinsic::ubsantrap:
            case Intrinsic::debugtrap: os << "  VERIF_ASSERT(0, \"trap (unreachable/PIKA_UNREACHABLE/abort)\"); VERIF_ASSUME(0);\n"; return true;
            case Intrinsic::eh_typeid_for: os << "  " << lhs << C.typeIdFor(CB.getArgOperand(0)) << ";\n"; return true;
            case Intrinsic::umin:
            case Intrinsic::umax:
            case Intrinsic::smin:
            case Intrinsic::smax:
            {
                unsigned nb = T->getIntegerBitWidth();
                auto id = Callee->getIntrinsicID();
                bool sg = id == Intrinsic::smin || id == Intrinsic::smax;
                bool mx = id == Intrinsic::umax || id == Intrinsic::smax;
                std::string x = sg ? sextOf(nb, a(0)) : a(0), y = sg ? sextOf(nb, a(1)) : a(1);
                os << "  " << lhs << "(" << x << (mx ? " > " : " < ") << y << ") ? " << a(0) << " : " << a(1) << ";\n";
                return true;
            }
            case Intrinsic::abs:
            {
                unsigned nb = T->getIntegerBitWidth();
                os << "  " << lhs << "(" << sextOf(nb, a(0)) << " < 0) ? " << maskTo(nb, "0 - " + a(0)) << " : " << a(0) << ";\n";
                return true;
            }
            case Intrinsic::ctlz:
            case Intrinsic::cttz:
            case Intrinsic::ctpop:
            {
                unsigned nb = T->getIntegerBitWidth();
                auto id = Callee->getIntrinsicID();
                const char* f = id == Intrinsic::ctlz ? "verif_ctlz" : id == Intrinsic::cttz ? "verif_cttz" : "verif_ctpop";
                os << "  " << lhs << "(" << C.ty(T) << ")" << f << "((u64)" << a(0) << ", " << nb << ");\n";
                return true;
            }
            case Intrinsic::bswap:
            {
                unsigned nb = T->getIntegerBitWidth();
                os << "  " << lhs << "(" << C.ty(T) << ")verif_bswap((u64)" << a(0) << ", " << nb << ");\n";
                return true;
            }
            case Intrinsic::fshl:
            case Intrinsic::fshr:
            {
                unsigned nb = T->getIntegerBitWidth();
                if (nb > 64) die("fsh >64");
                os << "  " << lhs << "(" << C.ty(T) << ")verif_fsh((u64)" << a(0) << ", (u64)" << a(1) << ", (u64)" << a(2) << ", " << nb << ", "
                   << (Callee->getIntrinsicID() == Intrinsic::fshl ? 1 : 0) << ");\n";
                return true;
            }
            case Intrinsic::uadd_with_overflow:
            case Intrinsic::usub_with_overflow:
            case Intrinsic::umul_with_overflow:
            case Intrinsic::sadd_with_overflow:
            case Intrinsic::ssub_with_overflow:
            case Intrinsic::smul_with_overflow:
            {
                auto id = Callee->getIntrinsicID();
                Type* ET = cast<StructType>(T)->getElementType(0);
                unsigned nb = ET->getIntegerBitWidth();
                if (nb > 64) die("with.overflow >64");
                bool sg = id == Intrinsic::sadd_with_overflow || id == Intrinsic::ssub_with_overflow || id == Intrinsic::smul_with_overflow;
                const char* o = (id == Intrinsic::uadd_with_overflow || id == Intrinsic::sadd_with_overflow) ? "+" :
                    (id == Intrinsic::usub_with_overflow || id == Intrinsic::ssub_with_overflow)             ? "-" :
                                                                                                               "*";
                std::string x = sg ? "(s128)" + sextOf(nb, a(0)) : "(s128)(u128)" + a(0);
                std::string y = sg ? "(s128)" + sextOf(nb, a(1)) : "(s128)(u128)" + a(1);
                os << "  { s128 w_ = " << x << " " << o << " " << y << "; " << val(&CB) << ".f0 = " << maskTo(nb, "(u128)w_") << "; " << val(&CB)
                   << ".f1 = (u1)(w_ != " << (sg ? "(s128)" + sextOf(nb, val(&CB) + ".f0") : "(s128)(u128)" + val(&CB) + ".f0") << "); }\n";
                return true;
            }
            case Intrinsic::usub_sat:
                os << "  " << lhs << "(" << a(0) << " > " << a(1) << ") ? " << maskTo(T->getIntegerBitWidth(), a(0) + " - " + a(1)) << " : "
                   << C.zeroOf(T) << ";\n";
                return true;
            case Intrinsic::uadd_sat:
            {
                unsigned nb = T->getIntegerBitWidth();
                os << "  " << lhs << "(" << maskTo(nb, a(0) + " + " + a(1)) << " < " << a(0) << ") ? " << maskTo(nb, "~(u64)0") << " : "
                   << maskTo(nb, a(0) + " + " + a(1)) << ";\n";
                return true;
            }
            case Intrinsic::fabs: os << "  " << lhs << "verif_fabs(" << a(0) << ");\n"; return true;
            case Intrinsic::round: os << "  " << lhs << "verif_round(" << a(0) << ");\n"; return true;
            case Intrinsic::floor: os << "  " << lhs << "verif_floor(" << a(0) << ");\n"; return true;
            case Intrinsic::ceil: os << "  " << lhs << "verif_ceil(" << a(0) << ");\n"; return true;
            case Intrinsic::fmuladd: os << "  " << lhs << "(" << a(0) << " * " << a(1) << " + " << a(2) << ");\n"; return true;
            default: die("unsupported intrinsic " + n.str() + " in " + F.getName().str());
            }
        }
        if (n == "verif_assert")
        {
            os << "  VERIF_ASSERT(" << a(0) << ", \"" << cstringOf(CB.getArgOperand(1)) << "\");\n";
            return true;
        }
        if (n == "verif_assume")
        {
            os << "  VERIF_ASSUME(" << a(0) << ");\n";
            return true;
        }
        if (n == "verif_block_until")
        {
            ++nVisible;
            if (!res)
            {
                os << "  verif_seq_block((u32*)" << a(0) << ");\n";
                return true;
            }
            int k = beginYieldSeg();
            os << "  if (verif_block_check((u32*)" << a(0) << ")) " << yieldRet(k) << "\n";
            return true;
        }
        if (n == "verif_spin" || n == "verif_spin_timed")
        {
            ++nVisible;
            if (!res)
            {
                os << "  verif_seq_spin();\n";
                return true;
            }
            os << "  verif_spin_begin(" << (n == "verif_spin_timed" ? 1 : 0) << ");\n";
            int k = beginYieldSeg();
            os << "  if (verif_preempt_spin()) " << yieldRet(k) << "\n";
            return true;
        }
        if (n == "verif_yield")
        {
            visiblePrologue();
            return true;
        }
        return false;
    }

    // emits call; for invoke the caller appends branch code. returns nothing; result assigned.
    void emitCall(CallBase& CB)
    {
        Value* CV = CB.getCalledOperand();
        if (isa<InlineAsm>(CV))
        {
            auto* IA = cast<InlineAsm>(CV);
            std::string s = IA->getAsmString();
            if (s == "" || s == "pause" || s == "rep; nop" || s == "nop" || s == "pause\n" || s == "rep;nop") return;
            die("unsupported inline asm: " + s);
        }
        Function* Callee = dyn_cast<Function>(CV->stripPointerCasts());
        if (Callee && Callee->getFunctionType() != CB.getFunctionType()) Callee = nullptr;    // call through cast
        if (Callee && C.skipCalls.count(Callee)) return;
        if (Callee && emitIntrinsicOrSpecial(CB, Callee)) return;
        bool mayThrow = !CB.doesNotThrow();
        std::string lhs = CB.getType()->isVoidTy() ? "" : val(&CB) + " = ";
        if (Callee && isVisibleInst(CB)) visiblePrologue();    // __atomic_* libcalls
        if (Callee && Callee->isDeclaration() && (Callee->getName() == "_Znwm" || Callee->getName() == "_Znam" || Callee->getName() == "malloc"))
            if (auto* N = dyn_cast<ConstantInt>(CB.getArgOperand(0)))
            {
                // typed allocation: CBMC then creates an object of the struct type (field-sensitive, pointer fields keep
                // their points-to sets) instead of an untyped byte array
                Type* T = nullptr;
                Type* S1 = nullptr;
                bool ok = true, okS = true;
                for (User* U : CB.users())
                    if (auto* BC = dyn_cast<BitCastInst>(U))
                    {
                        Type* E = BC->getType()->getPointerElementType();
                        if (!E->isStructTy())
                        {
                            // e.g. new stop_source() after SROA: the 8-byte object is only ever used as an i8** cell
                            if (E->isSized() && !E->isIntegerTy(8) && C.DL.getTypeAllocSize(E) == N->getZExtValue()) { if (S1 && S1 != E) okS = false; S1 = E; }
                            continue;
                        }
                        if (T && T != E) ok = false;
                        T = E;
                    }
                if (!T && S1 && okS && getenv("VERIF_SCALARNEW")) T = S1;    // opt-in: typed pointer cells made the C14 histories 10x slower in symex
                if (ok && T && T->isSized() && C.DL.getTypeAllocSize(T) == N->getZExtValue())
                {
                    os << "  " << lhs << "(u8*)VERIF_NEW(" << C.ty(T) << ");\n";
                    return;
                }
            }
        if (Callee && Callee->isDeclaration() && (Callee->getName() == "_Znwm" || Callee->getName() == "_Znam"))
            if (auto* M = dyn_cast<BinaryOperator>(CB.getArgOperand(0)); M && M->getOpcode() == Instruction::Mul)
                if (auto* K = dyn_cast<ConstantInt>(M->getOperand(1)))
                {
                    // typed ARRAY allocation: operator new(n * sizeof(T)) whose result is used as T* (vector growth)
                    Type* T = nullptr;
                    bool ok = true;
                    for (User* U : CB.users())
                        if (auto* BC = dyn_cast<BitCastInst>(U))
                        {
                            Type* E = BC->getType()->getPointerElementType();
                            if (!E->isStructTy()) continue;
                            if (T && T != E) ok = false;
                            T = E;
                        }
                    if (ok && T && T->isSized() && C.DL.getTypeAllocSize(T) == K->getZExtValue())
                    {
                        os << "  " << lhs << "(u8*)VERIF_NEW_ARRAY(" << C.ty(T) << ", " << val(M->getOperand(0)) << ");\n";
                        return;
                    }
                }
        if (Callee && C.isExt(Callee))
        {
            C.usedExternals.insert(Callee);
            os << "  " << lhs;
            if (CB.getType()->isPointerTy()) os << "(" << C.ty(CB.getType()) << ")";
            os << C.gname(Callee) << "(";
            for (unsigned i = 0; i < CB.arg_size(); ++i) os << (i ? ", " : "") << argCast(CB.getArgOperand(i), true);
            os << ");\n";
        }
        else if (Callee && res && C.resumable.count(Callee))
        {
            std::string cn = C.gname(Callee);
            os << "  { struct FR_" << cn << "* cf = &FRS_" << cn << "[verif_cur];";
            for (unsigned i = 0; i < CB.arg_size(); ++i) os << " cf->a" << i << " = " << val(CB.getArgOperand(i)) << ";";
            os << " cf->pc = 0; }\n";
            int k = beginYieldSeg();
            os << "  if (" << cn << "__step()) " << yieldRet(k) << "\n";
            if (!CB.getType()->isVoidTy())
                os << "  " << (mayThrow ? "if (!VERIF_EXC_PENDING) " : "") << lhs << "FRS_" << cn << "[verif_cur].ret;\n";
        }
        else if (Callee)
        {
            os << "  " << lhs << C.gname(Callee) << "(";
            for (unsigned i = 0; i < CB.arg_size(); ++i) os << (i ? ", " : "") << val(CB.getArgOperand(i));
            os << ");\n";
        }
        else
        {
            // indirect (or through function-pointer cast)
            FunctionType* FT = CB.getFunctionType();
            std::vector<Function*> cands;
            bool anyRes = false;
            for (Function* G : C.indirectTargets(&CB))
            {
                cands.push_back(G);
                anyRes |= res && C.resumable.count(G) > 0;
            }
            std::string fp = "((" + C.ty(FT) + "*)" + val(CV) + ")";
            if (!anyRes)
            {
                // explicit dispatch over the possible targets (CBMC's own function-pointer removal matches pointer
                // parameters loosely and would symbolically execute type-incompatible candidates)
                bool first = true;
                for (Function* G : cands)
                {
                    std::string call = C.gname(G) + "(";
                    for (unsigned j = 0; j < CB.arg_size(); ++j) call += (j ? ", " : "") + argFor(G, j, CB.getArgOperand(j));
                    call += ")";
                    os << "  " << (first ? "" : "else ") << "if ((u8*)" << fp << " == (u8*)&" << C.gname(G) << ") { " << lhs
                       << (CB.getType()->isVoidTy() ? call : retFrom(G, CB, call)) << "; }\n";
                    first = false;
                }
                os << "  " << (first ? "" : "else ") << "{ VERIF_ASSERT(0, \"indirect call: unknown target\"); VERIF_ASSUME(0); }\n";
            }
            else
            {
                std::string tg = "tgt" + std::to_string(tmpCnt++);
                decls.push_back({"int", tg});
                os << "  " << ref(tg) << " = 0;\n";
                for (size_t i = 0; i < cands.size(); ++i)
                    os << "  " << (i ? "else " : "") << "if ((u8*)" << fp << " == (u8*)&" << C.gname(cands[i]) << ") " << ref(tg) << " = " << i + 1
                       << ";\n";
                for (size_t i = 0; i < cands.size(); ++i)
                    if (C.resumable.count(cands[i]))
                    {
                        std::string cn = C.gname(cands[i]);
                        os << "  if (" << ref(tg) << " == " << i + 1 << ") { struct FR_" << cn << "* cf = &FRS_" << cn << "[verif_cur];";
                        for (unsigned j = 0; j < CB.arg_size(); ++j) os << " cf->a" << j << " = " << argFor(cands[i], j, CB.getArgOperand(j)) << ";";
                        os << " cf->pc = 0; }\n";
                    }
                int k = beginYieldSeg();
                if (flat())
                {
                    os << "  verif_y = 0;\n  switch (" << ref(tg) << ") {\n";
                    for (size_t i = 0; i < cands.size(); ++i)
                    {
                        std::string cn = C.gname(cands[i]);
                        os << "    case " << i + 1 << ": ";
                        if (C.resumable.count(cands[i]))
                        {
                            os << "verif_y = " << cn << "__step();";
                            if (!CB.getType()->isVoidTy()) os << " if (!verif_y) " << lhs << retFrom(cands[i], CB, "FRS_" + cn + "[verif_cur].ret") << ";";
                        }
                        else
                        {
                            std::string call = cn + "(";
                            for (unsigned j = 0; j < CB.arg_size(); ++j) call += (j ? ", " : "") + argFor(cands[i], j, CB.getArgOperand(j));
                            call += ")";
                            os << lhs << (CB.getType()->isVoidTy() ? call : retFrom(cands[i], CB, call)) << ";";
                        }
                        os << " break;\n";
                    }
                    os << "    default: VERIF_ASSERT(0, \"indirect call: unknown target\"); VERIF_ASSUME(0);\n  }\n";
                    os << "  if (verif_y) " << yieldRet(k) << "\n";
                    if (mayThrow && !isa<InvokeInst>(CB))
                        os << "  if (VERIF_EXC_PENDING) " << abortStmt() << " else " << contSeg() << "\n";
                    return;
                }
                os << "  switch (" << ref(tg) << ") {\n";
                for (size_t i = 0; i < cands.size(); ++i)
                {
                    std::string cn = C.gname(cands[i]);
                    os << "    case " << i + 1 << ": ";
                    if (C.resumable.count(cands[i]))
                    {
                        os << "if (" << cn << "__step()) " << yieldRet(k);
                        if (!CB.getType()->isVoidTy()) os << " " << lhs << retFrom(cands[i], CB, "FRS_" + cn + "[verif_cur].ret") << ";";
                    }
                    else
                    {
                        std::string call = cn + "(";
                        for (unsigned j = 0; j < CB.arg_size(); ++j) call += (j ? ", " : "") + argFor(cands[i], j, CB.getArgOperand(j));
                        call += ")";
                        os << lhs << (CB.getType()->isVoidTy() ? call : retFrom(cands[i], CB, call)) << ";";
                    }
                    os << " break;\n";
                }
                os << "    default: VERIF_ASSERT(0, \"indirect call: unknown target\"); VERIF_ASSUME(0);\n  }\n";
            }
        }
        if (mayThrow && !isa<InvokeInst>(CB))
        {
            if (flat() && curRegion < 0) os << "  if (VERIF_EXC_PENDING) " << abortStmt() << " else " << contSeg() << "\n";
            else
                os << "  if (VERIF_EXC_PENDING) " << excPropagate() << "\n";
        }
    }

    void emitInst(Instruction& I)
    {
        BasicBlock* BB = I.getParent();
        if (inl.count(&I)) return;
        switch (I.getOpcode())
        {
        case Instruction::PHI: return;
        case Instruction::Alloca: return;
        case Instruction::Load:
        {
            auto& L = cast<LoadInst>(I);
            if (L.getType()->isIntegerTy() && L.getType()->getIntegerBitWidth() != 1 &&
                containerBits(L.getType()->getIntegerBitWidth()) != L.getType()->getIntegerBitWidth())
                die("load of odd-width integer");
            if (L.isAtomic()) visiblePrologue();
            if (isPtrLoad(&I))
            {
                os << "  " << pshadow(&I) << " = *(u8**)" << val(L.getPointerOperand()) << "; " << val(&I) << " = (u64)(uintptr_t)" << pshadow(&I) << ";\n";
                return;
            }
            os << "  " << val(&I) << " = *" << val(L.getPointerOperand()) << ";\n";
            return;
        }
        case Instruction::Store:
        {
            auto& S = cast<StoreInst>(I);
            Type* VT = S.getValueOperand()->getType();
            if (VT->isIntegerTy() && VT->getIntegerBitWidth() != 1 && containerBits(VT->getIntegerBitWidth()) != VT->getIntegerBitWidth())
                die("store of odd-width integer");
            if (S.isAtomic())
            {
                visiblePrologue();
                if (res) os << "  if (*" << val(S.getPointerOperand()) << " != " << val(S.getValueOperand()) << ") verif_changed = 1;\n";
            }
            if (std::string ps = isa<ConstantInt>(S.getValueOperand()) ? std::string() : pshadow(S.getValueOperand()); !ps.empty())
                os << "  *(u8**)" << val(S.getPointerOperand()) << " = " << ps << ";\n";
            else
                os << "  *" << val(S.getPointerOperand()) << " = " << val(S.getValueOperand()) << ";\n";
            return;
        }
        case Instruction::IntToPtr:
        {
            std::string ps = pshadow(I.getOperand(0));
            if (ps.empty()) break;
            os << "  " << val(&I) << " = (" << C.ty(I.getType()) << ")" << ps << ";\n";
            return;
        }
        case Instruction::AtomicRMW:
        {
            auto& R = cast<AtomicRMWInst>(I);
            if (isVisibleInst(I)) visiblePrologue();
            if (isPtrLoad(&I))
            {
                std::string pp = "*(u8**)" + val(R.getPointerOperand()), op = pshadow(&I);
                os << "  " << op << " = " << pp << "; " << pp << " = " << asPtr(R.getValOperand()) << "; " << val(&I) << " = (u64)(uintptr_t)" << op << ";";
                if (res) os << " if (" << pp << " != " << op << ") verif_changed = 1;";
                os << "\n";
                return;
            }
            std::string p = "*" + val(R.getPointerOperand()), x = val(R.getValOperand()), o = val(&I);
            unsigned nb = R.getType()->isIntegerTy() ? R.getType()->getIntegerBitWidth() : 64;
            std::string nv;
            switch (R.getOperation())
            {
            case AtomicRMWInst::Xchg: nv = x; break;
            case AtomicRMWInst::Add: nv = maskTo(nb, o + " + " + x); break;
            case AtomicRMWInst::Sub: nv = maskTo(nb, o + " - " + x); break;
            case AtomicRMWInst::And: nv = "(" + o + " & " + x + ")"; break;
            case AtomicRMWInst::Or: nv = "(" + o + " | " + x + ")"; break;
            case AtomicRMWInst::Xor: nv = "(" + o + " ^ " + x + ")"; break;
            case AtomicRMWInst::Nand: nv = maskTo(nb, "~(" + o + " & " + x + ")"); break;
            case AtomicRMWInst::UMax: nv = "(" + o + " > " + x + " ? " + o + " : " + x + ")"; break;
            case AtomicRMWInst::UMin: nv = "(" + o + " < " + x + " ? " + o + " : " + x + ")"; break;
            case AtomicRMWInst::Max: nv = "(" + sextOf(nb, o) + " > " + sextOf(nb, x) + " ? " + o + " : " + x + ")"; break;
            case AtomicRMWInst::Min: nv = "(" + sextOf(nb, o) + " < " + sextOf(nb, x) + " ? " + o + " : " + x + ")"; break;
            default: die("atomicrmw op");
            }
            os << "  " << o << " = " << p << "; " << p << " = " << nv << ";";
            if (res) os << " if (" << p << " != " << o << ") verif_changed = 1;";
            os << "\n";
            return;
        }
        case Instruction::AtomicCmpXchg:
        {
            auto& X = cast<AtomicCmpXchgInst>(I);
            visiblePrologue();
            if (isPtrLoad(&I))
            {
                std::string pp = "*(u8**)" + val(X.getPointerOperand()), o = val(&I);
                std::string op = (res && frameVals.count(&I)) ? "fr->" + names[&I] + "_p" : names[&I] + "_p";
                os << "  " << op << " = " << pp << "; " << o << ".f0 = (u64)(uintptr_t)" << op << "; " << o << ".f1 = (u1)(" << op << " == " << asPtr(X.getCompareOperand())
                   << "); if (" << o << ".f1) { " << pp << " = " << asPtr(X.getNewValOperand()) << ";";
                if (res) os << " if (" << pp << " != " << op << ") verif_changed = 1;";
                os << " }\n";
                return;
            }
            std::string p = "*" + val(X.getPointerOperand()), o = val(&I);
            os << "  " << o << ".f0 = " << p << "; " << o << ".f1 = (u1)(" << o << ".f0 == " << val(X.getCompareOperand()) << "); if (" << o
               << ".f1) { " << p << " = " << val(X.getNewValOperand()) << ";";
            if (res) os << " if (" << p << " != " << o << ".f0) verif_changed = 1;";
            os << " }\n";
            return;
        }
        case Instruction::Fence: visiblePrologue(); return;
        case Instruction::Call: emitCall(cast<CallBase>(I)); return;
        case Instruction::Invoke:
        {
            auto& V = cast<InvokeInst>(I);
            emitCall(V);
            if (V.doesNotThrow())
                os << "  " << gotoEdge(BB, V.getNormalDest()) << "\n";
            else
                os << "  if (VERIF_EXC_PENDING) " << gotoEdge(BB, V.getUnwindDest()) << " else " << gotoEdge(BB, V.getNormalDest()) << "\n";
            return;
        }
        case Instruction::LandingPad:
        {
            auto& L = cast<LandingPadInst>(I);
            std::string o = val(&I);
            os << "  VERIF_EXC_PENDING = 0; " << o << ".f0 = (u8*)VERIF_EXC_OBJ;\n  ";
            for (unsigned i = 0; i < L.getNumClauses(); ++i)
            {
                if (!L.isCatch(i)) continue;    // filters never match in this model
                Constant* ti = L.getClause(i);
                int id = C.typeIdFor(ti);
                if (id == 1)
                {
                    os << "if (1) " << o << ".f1 = 1; else ";
                }
                else
                    os << "if (verif_exc_matches((u8*)VERIF_EXC_TYPE, (u8*)" << C.cexpr(ti) << ")) " << o << ".f1 = " << id << "; else ";
            }
            if (L.isCleanup())
                os << o << ".f1 = 0;\n";
            else
            {
                if (flat() && curRegion < 0)
                {
                    os << "{ VERIF_EXC_PENDING = 1; }\n  if (VERIF_EXC_PENDING) " << abortStmt() << " else " << contSeg() << "\n";
                }
                else
                    os << "{ VERIF_EXC_PENDING = 1; " << excPropagate() << " }\n";
            }
            return;
        }
        case Instruction::Resume: os << "  VERIF_EXC_PENDING = 1; " << excPropagate() << "\n"; return;
        case Instruction::Ret:
        {
            auto& R = cast<ReturnInst>(I);
            os << "  " << retStmt(R.getReturnValue() ? val(R.getReturnValue()) : "") << "\n";
            return;
        }
        case Instruction::Br:
        {
            auto& B = cast<BranchInst>(I);
            if (B.isUnconditional())
                os << "  " << gotoEdge(BB, B.getSuccessor(0)) << "\n";
            else
            {
                // the branch condition goes through a named temporary: CBMC keeps path guards as expressions, and a guard built from
                // inlined pointer-dereference conditions is re-merged for every variable at every join (measured: minutes per join)
                static bool condTemps = getenv("VERIF_NO_CONDTEMP") == nullptr;
                std::string c = val(B.getCondition());
                bool simple = c.find_first_of(" (*&[") == std::string::npos;
                if (condTemps && !simple)
                    os << "  { u1 verif_c = (u1)(" << c << "); if (verif_c) " << gotoEdge(BB, B.getSuccessor(0)) << " else " << gotoEdge(BB, B.getSuccessor(1)) << " }\n";
                else
                    os << "  if (" << c << ") " << gotoEdge(BB, B.getSuccessor(0)) << " else " << gotoEdge(BB, B.getSuccessor(1)) << "\n";
            }
            return;
        }
        case Instruction::Switch:
        {
            auto& S = cast<SwitchInst>(I);
            unsigned nb = S.getCondition()->getType()->getIntegerBitWidth();
            if (nb > 64) die("switch >64");
            os << "  switch ((u64)" << val(S.getCondition()) << ") {\n";
            for (auto& Cs : S.cases())
                os << "    case " << Cs.getCaseValue()->getZExtValue() << "ULL: " << gotoEdge(BB, Cs.getCaseSuccessor()) << (flat() ? " break;" : "") << "\n";
            os << "    default: " << gotoEdge(BB, S.getDefaultDest()) << (flat() ? " break;" : "") << "\n  }\n";
            return;
        }
        case Instruction::Unreachable: os << "  VERIF_UNREACHABLE();\n"; return;
        case Instruction::ExtractValue:
        {
            auto& E = cast<ExtractValueInst>(I);
            os << "  " << val(&I) << " = " << val(E.getAggregateOperand()) << aggPath(E.getAggregateOperand()->getType(), E.getIndices()) << ";\n";
            return;
        }
        case Instruction::InsertValue:
        {
            auto& E = cast<InsertValueInst>(I);
            os << "  " << val(&I) << " = " << val(E.getAggregateOperand()) << "; " << val(&I) << aggPath(E.getType(), E.getIndices()) << " = "
               << val(E.getInsertedValueOperand()) << ";\n";
            return;
        }
        case Instruction::ExtractElement:
        {
            os << "  " << val(&I) << " = " << val(I.getOperand(0)) << ".a[" << val(I.getOperand(1)) << "];\n";
            return;
        }
        case Instruction::InsertElement:
        {
            os << "  " << val(&I) << " = " << val(I.getOperand(0)) << "; " << val(&I) << ".a[" << val(I.getOperand(2)) << "] = " << val(I.getOperand(1))
               << ";\n";
            return;
        }
        case Instruction::VAArg:
        case Instruction::IndirectBr:
        case Instruction::ShuffleVector:
        case Instruction::CallBr: die(std::string("unsupported instruction ") + I.getOpcodeName() + " in " + F.getName().str());
        default: break;
        }
        os << "  " << val(&I) << " = " << C.pureExpr(I.getOpcode(), &I, valf()) << ";\n";
    }

    std::string aggPath(Type* T, ArrayRef<unsigned> idx)
    {
        std::string s;
        for (unsigned i : idx)
        {
            if (auto* S = dyn_cast<StructType>(T))
            {
                s += ".f" + std::to_string(i);
                T = S->getElementType(i);
            }
            else
            {
                s += ".a[" + std::to_string(i) + "]";
                T = T->isArrayTy() ? T->getArrayElementType() : cast<FixedVectorType>(T)->getElementType();
            }
        }
        return s;
    }

    void emitFlatBody()
    {
        // 1. yield-free natural loops become regions
        DominatorTree DT(F);
        LoopInfo LI(DT);
        int nreg = 0;
        std::function<void(Loop*)> visit = [&](Loop* L) {
            bool hasYield = false;
            for (BasicBlock* B : L->blocks())
                for (Instruction& I : *B)
                    if (isYieldPoint(I)) hasYield = true;
            if (!hasYield)
            {
                int r = nreg++;
                regionHead[r] = L->getHeader();
                for (BasicBlock* B : L->blocks()) regionOf[B] = r;
                return;
            }
            for (Loop* S : L->getSubLoops()) visit(S);
        };
        for (Loop* L : LI) visit(L);
        // 2. layout positions
        ReversePostOrderTraversal<Function*> RPOT(&F);
        std::vector<BasicBlock*> order(RPOT.begin(), RPOT.end());
        int p = 0;
        for (BasicBlock* B : order)
        {
            auto r = regionOf.find(B);
            if (r != regionOf.end() && B != regionHead[r->second]) continue;
            pos[B] = p++;
        }
        for (BasicBlock* B : order)
        {
            auto r = regionOf.find(B);
            if (r != regionOf.end()) pos[B] = pos[regionHead[r->second]];
        }
        std::set<std::string> declared;
        auto declFlag = [&](BasicBlock* B) {
            std::string f = flagB(B);
            if (declared.insert(f).second) flagNames.push_back(f);
            return f;
        };
        for (BasicBlock* B : order) declFlag(B);
        // 3. emission
        std::set<int> regionDone;
        for (BasicBlock* B : order)
        {
            auto r = regionOf.find(B);
            if (r == regionOf.end())
            {
                curPos = pos[B];
                curRegion = -1;
                std::string f = flagB(B);
                os << "  if (" << f << ") { " << f << " = 0; /* B" << bbId[B] << " */\n";
                if (B == &F.getEntryBlock()) os << flatPrologue;
                for (Instruction& I : *B) emitInst(I);
                os << "  }\n";
                continue;
            }
            if (!regionDone.insert(r->second).second) continue;
            // whole region (in RPO order), classic labels and gotos, entered at its header
            curPos = pos[B];
            curRegion = r->second;
            std::string f = flagB(B);
            os << "  if (" << f << ") { " << f << " = 0; /* region " << curRegion << " */\n  goto B" << bbId[regionHead[curRegion]] << ";\n";
            for (BasicBlock* RB : order)
            {
                auto rr = regionOf.find(RB);
                if (rr == regionOf.end() || rr->second != curRegion) continue;
                os << " B" << bbId[RB] << ": ;\n";
                for (Instruction& I : *RB) emitInst(I);
            }
            os << " RE" << curRegion << ": ;\n  }\n";
            curRegion = -1;
        }
    }

    void run(raw_ostream& protoOut, raw_ostream& bodyOut)
    {
        int n = 0;
        for (Argument& A : F.args()) names[&A] = "a" + std::to_string(A.getArgNo());
        for (BasicBlock& BB : F)
        {
            bbId[&BB] = n++;
        }
        n = 0;
        for (Instruction& I : instructions(F))
        {
            if (I.getType()->isVoidTy()) continue;
            names[&I] = "v" + std::to_string(n++);
        }
        computeInline();
        computeExprInline();
        computeFrameVals();
        for (Instruction& I : instructions(F))
        {
            if (I.getType()->isVoidTy() || inl.count(&I)) continue;
            if (res && frameVals.count(&I)) decl(I.getType(), names[&I]);
            else
                ldecl(I.getType(), names[&I]);
            if (isa<PHINode>(I)) ldecl(I.getType(), "t_" + names[&I]);
            if (isPtrLoad(&I))
            {
                if (res && frameVals.count(&I)) decls.push_back({"u8*", names[&I] + "_p"});
                else
                    (res ? ldecls : decls).push_back({"u8*", names[&I] + "_p"});
            }
        }
        // byval args: private copy
        for (Argument& A : F.args())
            if (A.hasByValAttr())
            {
                std::string c = "bv" + std::to_string(A.getArgNo());
                if (res)
                {
                    std::string g = "FRA_" + fname + "_" + c;
                    sdecls.push_back({C.ty(A.getParamByValType()), g + "[VERIF_NSLOT]"});
                    std::string code = "  " + g + "[verif_cur] = *" + val(&A) + "; " + val(&A) + " = &" + g + "[verif_cur];\n";
                    if (flat()) flatPrologue += code;    // belongs to the entry segment (not to every pass / resumption)
                    else
                        os << code;
                }
                else
                {
                    decl(A.getParamByValType(), c);
                    os << "  " << ref(c) << " = *" << val(&A) << "; " << val(&A) << " = &" << ref(c) << ";\n";
                }
            }
        if (flat())
        {
            emitFlatBody();
        }
        else
        {
            os << "  goto B0;\n";
            // reverse post order: only genuine loop back edges become backward gotos (CBMC counts every
            // backward goto as a loop to unwind)
            ReversePostOrderTraversal<Function*> RPOT(&F);
            std::set<BasicBlock*> done;
            for (BasicBlock* BB : RPOT)
            {
                done.insert(BB);
                beginBlockSeg("B" + std::to_string(bbId[BB]));
                for (Instruction& I : *BB) emitInst(I);
            }
        }
        os.flush();
        // signature
        std::string sig;
        Type* RT = F.getReturnType();
        std::string dn = demangle(F.getName().str());
        if (dn.size() > 300) dn = dn.substr(0, 300) + "...";
        for (char& ch : dn)
            if (ch == '\n') ch = ' ';
        if (!res)
        {
            sig = C.ty(RT) + " " + fname + "(";
            for (Argument& A : F.args()) sig += (A.getArgNo() ? ", " : "") + C.ty(A.getType()) + " a" + std::to_string(A.getArgNo());
            if (F.arg_empty()) sig += "void";
            sig += ")";
            protoOut << sig << ";\n";
            bodyOut << "/* " << dn << " */\n" << sig << "\n{\n";
            for (auto& d : decls) bodyOut << "  " << d.first << " " << d.second << ";\n";
            bodyOut << body << "}\n\n";
        }
        else
        {
            for (auto& d : sdecls) protoOut << "static " << d.first << " " << d.second << ";\n";
            protoOut << "struct FR_" << fname << " { int pc; int active;";
            if (!RT->isVoidTy()) protoOut << " " << C.ty(RT) << " ret;";
            for (Argument& A : F.args()) protoOut << " " << C.ty(A.getType()) << " a" << A.getArgNo() << ";";
            for (auto& d : decls) protoOut << " " << d.first << " " << d.second << ";";
            protoOut << " };\nstatic struct FR_" << fname << " FRS_" << fname << "[VERIF_NSLOT];\nstatic int " << fname << "__step(void);\n";
            if (C.addrTaken.count(&F))
            {
                // addressable identity of a resumable function (vtables, callbacks); never called directly
                std::string sg = C.ty(RT) + " " + fname + "(";
                for (Argument& A : F.args()) sg += (A.getArgNo() ? ", " : "") + C.ty(A.getType()) + " a" + std::to_string(A.getArgNo());
                if (F.arg_empty()) sg += "void";
                sg += ")";
                protoOut << sg << ";\n";
                bodyOut << sg << "\n{\n  VERIF_ASSERT(0, \"resumable function called through a plain function pointer\"); VERIF_ASSUME(0);\n";
                if (!RT->isVoidTy()) bodyOut << "  return " << C.zeroOf(RT) << ";\n";
                bodyOut << "}\n";
            }
            bodyOut << "/* [resumable] " << dn << " */\nstatic int " << fname << "__step(void)\n{\n  struct FR_" << fname << "* fr = &FRS_" << fname
                    << "[verif_cur];\n\n";
            for (auto& d : ldecls) bodyOut << "  " << d.first << " " << d.second << ";\n";
            if (flat())
            {
                bodyOut << "  int verif_again = 1, verif_yielded = 0, verif_y = 0;\n";
                for (auto& f : flagNames) bodyOut << "  u1 " << f << " = 0;\n";
                bodyOut << "  if (fr->pc == 0) { VERIF_ENC_ASSERT(!fr->active, \"re-entrant activation of a resumable function (recursion is not supported by the encoding)\"); fr->active = 1; }\n";
                bodyOut << "  switch (fr->pc) { case 0: " << flagB(&F.getEntryBlock()) << " = 1; break;";
                for (auto& rf : resumeFlags) bodyOut << " case " << rf.first << ": " << rf.second << " = 1; break;";
                bodyOut << " default: VERIF_ASSUME(0); }\n  while (verif_again) {\n  verif_again = 0;\n" << body << "  }\n  return verif_yielded;\n}\n\n";
                return;
            }
            if (!C.chain)
            {
                bodyOut << "  if (fr->pc == 0) { VERIF_ENC_ASSERT(!fr->active, \"re-entrant activation of a resumable function (recursion is not supported by the encoding)\"); fr->active = 1; }\n";
                bodyOut << "  switch (fr->pc) { case 0: break;";
                for (int k = 1; k < nextY; ++k) bodyOut << " case " << k << ": goto Y" << k << ";";
                bodyOut << " default: VERIF_ASSUME(0); }\n" << body << "}\n\n";
                return;
            }
            bodyOut << "  if (fr->pc != 0) verif_mode = 1;\n";
            // patch "next segment" tokens
            std::string b = body;
            for (int i = nSeg - 1; i >= 0; --i)
            {
                std::string tok = "@N" + std::to_string(i) + "@";
                std::string rep = i + 1 < nSeg ? segLabels[i + 1] : std::string("END");
                size_t pos = 0;
                while ((pos = b.find(tok, pos)) != std::string::npos)
                {
                    b.replace(pos, tok.size(), rep);
                    pos += rep.size();
                }
            }
            bodyOut << b << " END: ;\n  if (verif_mode == 1) VERIF_ASSUME(0);\n  return verif_mode == 2;\n}\n\n";
        }
    }
};

}    // namespace

void emitFunction(Ctx& C, Function& F, raw_ostream& protoOut, raw_ostream& bodyOut, int& nVisible)
{
    FnEmit E(C, F);
    E.run(protoOut, bodyOut);
    nVisible = E.nVisible;
}
