/* Prelude of every ll2c-generated C file (CBMC front end and gcc for translator validation). */
#ifndef VERIF_GEN_H
#define VERIF_GEN_H
#include <stddef.h>
#include <stdint.h>

typedef _Bool u1;
typedef uint8_t u8;
typedef uint16_t u16;
typedef uint32_t u32;
typedef uint64_t u64;
typedef unsigned __int128 u128;
typedef int8_t s8;
typedef int16_t s16;
typedef int32_t s32;
typedef int64_t s64;
typedef __int128 s128;

#ifndef VERIF_NT
#define VERIF_NT 0
#endif
#define VERIF_NSLOT (VERIF_NT + 1)
#ifndef VERIF_R
#define VERIF_R 3
#endif
#ifndef VERIF_BMAX
#define VERIF_BMAX 200
#endif
#ifndef VERIF_NDMAX
#define VERIF_NDMAX 96 /* > 64: CBMC keeps the log as one array symbol (no per-element field sensitivity) */
#endif

/* ---- scheduler state (rt_gen.c) ---------------------------------------------------------- */
extern int verif_cur;           /* current thread slot (VERIF_NT = init/final/main slot)       */
extern unsigned verif_budget;   /* visible operations left in this context                      */
extern int verif_mode;          /* 0 run, 1 seeking the resume point, 2 yielded (falling through to the end) */
extern int verif_changed;       /* something observable changed in the current round            */
extern int verif_last[VERIF_NSLOT]; /* how the slot's last context ended: 0 pre-empted 1 blocked 2 spin 3 timed spin */
extern u32* verif_blocked_on[VERIF_NSLOT];
extern int verif_cover_hit[16];

struct verif_exc_state
{
    int pending;
    void* obj;
    void* type;
};
extern struct verif_exc_state verif_exc[VERIF_NSLOT];
#define VERIF_EXC_PENDING verif_exc[verif_cur].pending
#define VERIF_EXC_OBJ verif_exc[verif_cur].obj
#define VERIF_EXC_TYPE verif_exc[verif_cur].type

#ifdef __CPROVER__
#define VERIF_ASSERT(c, msg) __CPROVER_assert((c), msg)
#define VERIF_ASSUME(c) __CPROVER_assume(c)
#else
void verif_assert_concrete(int c, const char* msg);
void verif_assume_concrete(int c);
#define VERIF_ASSERT(c, msg) verif_assert_concrete((c) != 0, msg)
#define VERIF_ASSUME(c) verif_assume_concrete((c) != 0)
#endif
/* encoding-internal obligations (no counterpart in the native run: not part of the event hash) */
#ifdef __CPROVER__
#define VERIF_ENC_ASSERT(c, msg) __CPROVER_assert((c), msg)
#else
void verif_enc_assert_concrete(int c, const char* msg);
#define VERIF_ENC_ASSERT(c, msg) verif_enc_assert_concrete((c) != 0, msg)
#endif
#define VERIF_UNREACHABLE()                                                                                                                          \
    do {                                                                                                                                             \
        VERIF_ASSERT(0, "IR unreachable reached");                                                                                                   \
        VERIF_ASSUME(0);                                                                                                                             \
    } while (0)

#ifdef VERIF_TRACE2
#include <stdio.h>
#define VERIF_T2(x) fprintf(stderr, "%s t=%d budget=%u\n", x, verif_cur, verif_budget)
#else
#define VERIF_T2(x)
#endif
static inline int verif_preempt(void)
{
    VERIF_T2("preempt");
    if (verif_budget == 0)
    {
        verif_last[verif_cur] = 0;
        return 1;
    }
    verif_budget--;
    return 0;
}
static inline int verif_preempt_spin(void)
{
    if (verif_budget == 0) return 1; /* verif_last stays 2/3 */
    verif_budget--;
    return 0;
}
static inline void verif_spin_begin(int timed)
{
    verif_budget = 0;
    verif_last[verif_cur] = timed ? 3 : 2;
}
static inline int verif_block_check(u32* flag)
{
    VERIF_T2(*flag ? "block(open)" : "block(closed)");
    if (!*flag)
    {
        verif_blocked_on[verif_cur] = flag;
        verif_last[verif_cur] = 1;
        verif_budget = 0;
        return 1;
    }
    if (verif_budget == 0)
    {
        verif_last[verif_cur] = 0;
        return 1;
    }
    verif_budget--;
    verif_changed = 1;
    return 0;
}
static inline void verif_seq_block(u32* flag)
{
    VERIF_ASSERT(*flag != 0, "stuck: blocks forever (sequential scenario)");
    VERIF_ASSUME(*flag != 0);
}
static inline void verif_seq_spin(void) {}

/* typed heap allocation (ll2c emits it when `operator new(sizeof(T))` is immediately cast to T*) */
void* verif_rt__Znwm(u64 n);
extern int verif_live_allocs;
#ifdef __CPROVER__
#define VERIF_NEW(T) (verif_live_allocs++, __CPROVER_allocate(sizeof(T), 0))
#define VERIF_NEW_ARRAY(T, n) (verif_live_allocs++, __CPROVER_allocate(sizeof(T) * (n), 0))
#else
#define VERIF_NEW(T) verif_rt__Znwm(sizeof(T))
#define VERIF_NEW_ARRAY(T, n) verif_rt__Znwm(sizeof(T) * (n))
#endif

/* ---- kernel-visible API (same names as in rt/verif.h) ------------------------------------ */
u32 verif_nondet_u32(void);
u64 verif_nondet_u64(void);
u32 verif_nondet_range(u32 lo, u32 hi);
int verif_tid(void);
void verif_cover(int id);
void verif_observe(u64 v);
int verif_param(int i);

/* ---- helpers used by generated code ------------------------------------------------------- */
void verif_memcpy(void* d, void* s, u64 n);
void verif_memset(void* d, u8 v, u64 n);
static inline u64 verif_ctpop(u64 x, int n)
{
    u64 c = 0;
    for (int i = 0; i < n; i++) c += (x >> i) & 1;
    return c;
}
static inline u64 verif_ctlz(u64 x, int n)
{
    u64 c = 0;
    for (int i = n - 1; i >= 0; i--)
    {
        if ((x >> i) & 1) break;
        c++;
    }
    return c;
}
static inline u64 verif_cttz(u64 x, int n)
{
    u64 c = 0;
    for (int i = 0; i < n; i++)
    {
        if ((x >> i) & 1) break;
        c++;
    }
    return c;
}
static inline u64 verif_bswap(u64 x, int n)
{
    u64 r = 0;
    for (int i = 0; i < n / 8; i++) r |= ((x >> (8 * i)) & 0xff) << (n - 8 - 8 * i);
    return r;
}
static inline u64 verif_fsh(u64 a, u64 b, u64 s, int n, int left)
{
    s %= (u64) n;
    u64 m = n == 64 ? ~(u64) 0 : (((u64) 1 << n) - 1);
    if (s == 0) return left ? a : b;
    if (left) return ((a << s) | (b >> (n - s))) & m;
    return ((a << (n - s)) | (b >> s)) & m;
}
static inline u64 verif_d2u(double d)
{
    union
    {
        double d;
        u64 u;
    } x;
    x.d = d;
    return x.u;
}
static inline double verif_u2d(u64 u)
{
    union
    {
        double d;
        u64 u;
    } x;
    x.u = u;
    return x.d;
}
static inline u32 verif_f2u(float d)
{
    union
    {
        float d;
        u32 u;
    } x;
    x.d = d;
    return x.u;
}
static inline float verif_u2f(u32 u)
{
    union
    {
        float d;
        u32 u;
    } x;
    x.u = u;
    return x.d;
}
double verif_fabs(double);
double verif_round(double);
double verif_floor(double);
double verif_ceil(double);
static int verif_exc_matches(u8* thrown, u8* catcher);
#endif
