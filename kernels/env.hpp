// Environment stubs shared by all kernels (DESIGN §4.2): pika's assertion handler becomes a proof
// obligation.  Included after the pika headers of the kernel.
#pragma once
#include <pika/assert.hpp>
#include "verif.h"
#include <string>

namespace pika::detail {
    // target of PIKA_ASSERT (with -DPIKA_DEBUG) and of PIKA_UNREACHABLE (always)
    void handle_assert(source_location const&, char const*, std::string const&) noexcept
    {
        verif_assert(0, "PIKA_ASSERT / PIKA_UNREACHABLE fired");
        verif_assume(0);
    }
}    // namespace pika::detail
