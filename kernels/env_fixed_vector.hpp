// Environment: a fixed-capacity stand-in for std::vector with the same interface semantics for the operations
// the code under test uses.  Heap growth of libstdc++'s vector (allocate/copy/free on every push_back, nested
// vectors) is what made CBMC run out of memory on the affinity decoder; the decoder's logic does not depend on
// it.  Exceeding the capacity is an assertion failure of the encoding (bound stated in the query), not UB.
// Usage (kernel TU only): include every pika/std header first, then this file, then the .cpp under test.
#pragma once
#include <cstddef>
#include <initializer_list>
#include <utility>
#include <verif.h>

#ifndef VERIF_VEC_CAP
#define VERIF_VEC_CAP 8
#endif

namespace std {
    template <typename T>
    class verif_fixed_vector
    {
        T e_[VERIF_VEC_CAP] = {};
        std::size_t n_ = 0;
        void need(std::size_t n) const { verif_assert(n <= VERIF_VEC_CAP, "encoding bound: fixed-capacity vector stand-in exceeded"); verif_assume(n <= VERIF_VEC_CAP); }

    public:
        using value_type = T;
        using size_type = std::size_t;
        using iterator = T*;
        using const_iterator = T const*;
        using reference = T&;
        using const_reference = T const&;
        verif_fixed_vector() = default;
        explicit verif_fixed_vector(std::size_t n) { resize(n); }
        verif_fixed_vector(std::size_t n, T const& v) { need(n); for (std::size_t i = 0; i < VERIF_VEC_CAP; ++i) if (i < n) e_[i] = v; n_ = n; }
        verif_fixed_vector(std::initializer_list<T> l) { for (auto const& x : l) push_back(x); }
        std::size_t size() const { return n_; }
        bool empty() const { return n_ == 0; }
        void clear() { for (std::size_t i = 0; i < VERIF_VEC_CAP; ++i) e_[i] = T(); n_ = 0; }
        void reserve(std::size_t n) { need(n); }
        void resize(std::size_t n)
        {
            need(n);
            for (std::size_t i = 0; i < VERIF_VEC_CAP; ++i) if (i >= n) e_[i] = T();    // shrink drops, grow value-initialises
            n_ = n;
        }
        void resize(std::size_t n, T const& v)
        {
            need(n);
            for (std::size_t i = 0; i < VERIF_VEC_CAP; ++i) if (i >= n_ && i < n) e_[i] = v; else if (i >= n) e_[i] = T();
            n_ = n;
        }
        void push_back(T const& v) { need(n_ + 1); e_[n_ % VERIF_VEC_CAP] = v; ++n_; }
        void push_back(T&& v) { need(n_ + 1); e_[n_ % VERIF_VEC_CAP] = std::move(v); ++n_; }
        template <typename... A> T& emplace_back(A&&... a) { need(n_ + 1); e_[n_ % VERIF_VEC_CAP] = T(std::forward<A>(a)...); return e_[n_++ % VERIF_VEC_CAP]; }
        T& operator[](std::size_t i) { verif_assert(i < n_, "vector index out of range (undefined behaviour in the code under test)"); return e_[i % VERIF_VEC_CAP]; }
        T const& operator[](std::size_t i) const { verif_assert(i < n_, "vector index out of range (undefined behaviour in the code under test)"); return e_[i % VERIF_VEC_CAP]; }
        T& back() { return (*this)[n_ - 1]; }
        T const& back() const { return (*this)[n_ - 1]; }
        T& front() { return (*this)[0]; }
        T const& front() const { return (*this)[0]; }
        T* data() { return e_; }
        T const* data() const { return e_; }
        iterator begin() { return e_; }
        iterator end() { return e_ + n_; }
        const_iterator begin() const { return e_; }
        const_iterator end() const { return e_ + n_; }
    };
}    // namespace std
#define vector verif_fixed_vector
