/* Concrete (non-symbolic) source of nondeterminism + event hash, shared by the gcc build of the
   generated C (rt_gen.c) and by the native replay runtime (rt_native.c): both must produce the
   same RESULT line for the same seed / replay file, or the translator is wrong. */
#ifndef VERIF_RT_CONCRETE_H
#define VERIF_RT_CONCRETE_H
#include <stdint.h>
#include <stdio.h>
#include <stdlib.h>
#include <string.h>

static uint64_t vc_state, vc_hash = 1469598103934665603ULL, vc_events;
static int vc_replay, vc_trace;
static uint64_t vc_nd[4096];
static int vc_nnd, vc_ndpos;
static int vc_budget[64][16];
static int vc_bmax_random = 12;

static uint64_t vc_rand(void)
{
    uint64_t z = (vc_state += 0x9E3779B97F4A7C15ULL);
    z = (z ^ (z >> 30)) * 0xBF58476D1CE4E5B9ULL;
    z = (z ^ (z >> 27)) * 0x94D049BB133111EBULL;
    return z ^ (z >> 31);
}
static void verif_event(int kind, uint64_t v)
{
    vc_hash = (vc_hash ^ (uint64_t) kind) * 1099511628211ULL;
    vc_hash = (vc_hash ^ v) * 1099511628211ULL;
    vc_events++;
    if (vc_trace) fprintf(stderr, "EV %c %llu\n", kind, (unsigned long long) v);
}
static void verif_concrete_finish(const char* status, const char* msg)
{
    printf("RESULT %s [%s] hash=%016llx events=%llu\n", status, msg, (unsigned long long) vc_hash, (unsigned long long) vc_events);
    fflush(stdout);
    _Exit(0);
}
static uint64_t verif_src_next(void)
{
    if (vc_replay) return vc_ndpos < vc_nnd ? vc_nd[vc_ndpos++] : 0;
    uint64_t r = vc_rand();
    switch (r & 3)
    {
    case 0: return (r >> 8) & 7;
    case 1: return (r >> 8) & 0xff;
    case 2: return (r >> 8) | ((r & 4) ? 0x8000000000000000ULL : 0);
    default: return (uint64_t) 0 - ((r >> 8) & 7);
    }
}
static unsigned verif_src_budget(int r, int t)
{
    if (vc_replay) return (unsigned) vc_budget[r & 63][t & 15];
    return (unsigned) (vc_rand() % (unsigned) (vc_bmax_random + 1));
}
static void verif_concrete_setup(int argc, char** argv)
{
    vc_trace = getenv("VERIF_TRACE") != 0;
    for (int i = 1; i < argc; i++)
    {
        if (!strcmp(argv[i], "--seed") && i + 1 < argc) vc_state = strtoull(argv[++i], 0, 10) * 0x2545F4914F6CDD1DULL + 1;
        else if (!strcmp(argv[i], "--replay") && i + 1 < argc)
        {
            FILE* f = fopen(argv[++i], "r");
            if (!f)
            {
                perror("replay file");
                exit(2);
            }
            char kw[32];
            vc_replay = 1;
            while (fscanf(f, "%31s", kw) == 1)
            {
                if (!strcmp(kw, "nd"))
                {
                    int idx;
                    unsigned long long v;
                    if (fscanf(f, "%d %llu", &idx, &v) == 2 && idx >= 0 && idx < 4096)
                    {
                        vc_nd[idx] = v;
                        if (idx + 1 > vc_nnd) vc_nnd = idx + 1;
                    }
                }
                else if (!strcmp(kw, "budget"))
                {
                    int r, t, v;
                    if (fscanf(f, "%d %d %d", &r, &t, &v) == 3) vc_budget[r & 63][t & 15] = v;
                }
            }
            fclose(f);
        }
    }
}
void verif_assert_concrete(int c, const char* msg)
{
    verif_event('a', (uint64_t) (c != 0));
    if (vc_trace) fprintf(stderr, "   assert: %s\n", msg);
    if (!c) verif_concrete_finish("FAIL", msg);
}
void verif_enc_assert_concrete(int c, const char* msg)
{
    if (!c) verif_concrete_finish("FAIL", msg);
}
void verif_assume_concrete(int c)
{
    if (!c) verif_concrete_finish("ASSUME", "");
}
#endif
