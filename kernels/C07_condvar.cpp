// C07 — pika::condition_variable / condition_variable_any (real condition_variable.hpp over the real
// detail/condition_variable.cpp, stop-token overloads over the real stop_token.cpp).
// User lock type: std::unique_lock<spinlock> (contract spinlock) or std::unique_lock<pika::mutex> (-DUSE_PIKA_MUTEX).
#include "env_pre.hpp"
#include </repo/libs/pika/synchronization/src/detail/condition_variable.cpp>
#include </repo/libs/pika/synchronization/src/stop_token.cpp>
#ifdef USE_PIKA_MUTEX
#include </repo/libs/pika/synchronization/src/mutex.cpp>
#endif
#include <pika/synchronization/condition_variable.hpp>
#include "env_sync.hpp"

#ifdef USE_PIKA_MUTEX
using user_mutex = pika::mutex;
#else
using user_mutex = pika::concurrency::detail::spinlock;
#endif

static user_mutex mtx;
static pika::condition_variable cv;
static pika::condition_variable_any cva;
static pika::stop_source* ssrc;
static bool flag;
static int woken, nwaiters;

// ---- cvn_: W waiters (predicate loop), one notifier using notify_one per waiter or notify_all ------------
static void waiter()
{
    std::unique_lock<user_mutex> l(mtx);
    while (!flag) cv.wait(l);
    verif_assert(l.owns_lock(), "wait returns with the user lock re-acquired");
    ++woken;
}
extern "C" void cvn_init() { nwaiters = NWAITERS; }
extern "C" void cvn_thread_0() { waiter(); }
#if NWAITERS > 1
extern "C" void cvn_thread_1() { waiter(); }
#define NOTIFIER cvn_thread_2
#else
#define NOTIFIER cvn_thread_1
#endif
extern "C" void NOTIFIER()
{
    {
        std::unique_lock<user_mutex> l(mtx);
        flag = true;
    }
    if (verif_nondet_range(0, 1)) cv.notify_all();
    else
        for (int i = 0; i < NWAITERS; ++i) cv.notify_one();
}
extern "C" void cvn_final()
{
    verif_assert(woken == NWAITERS, "every waiter was woken (no notification lost)");
    verif_cover(0);
}

// ---- cvt_: timed wait; notified before the deadline => no timeout reported --------------------------------
static int timed_result = -1;
extern "C" void cvt_init() {}
extern "C" void cvt_thread_0()
{
    std::unique_lock<user_mutex> l(mtx);
    int t = verif_tid();
    verif_deadline_passed[t] = 0;
    if (!flag)
    {
        pika::cv_status st = cv.wait_until(l, pika::chrono::steady_time_point(std::chrono::steady_clock::time_point{}));
        verif_assert(l.owns_lock(), "timed wait returns with the user lock re-acquired");
        if (st == pika::cv_status::timeout)
            verif_assert(verif_deadline_passed[t], "a timed wait that was notified before its deadline does not report a timeout");
        timed_result = (int) st;
    }
}
extern "C" void cvt_thread_1()
{
    {
        std::unique_lock<user_mutex> l(mtx);
        flag = true;
    }
    cv.notify_one();
}
extern "C" void cvt_final() { verif_cover(0); }

// ---- cvs_: stop-token wait returns once stop is requested -----------------------------------------------------
static int stop_ret = -1;
extern "C" void cvs_init() { ssrc = new pika::stop_source(); }
extern "C" void cvs_thread_0()
{
    std::unique_lock<user_mutex> l(mtx);
    bool r = cva.wait(l, ssrc->get_token(), [] { return flag; });
    verif_assert(l.owns_lock(), "stop-token wait returns with the user lock re-acquired");
    verif_assert(r == flag, "stop-token wait returns the value of the predicate");
    stop_ret = r;
}
extern "C" void cvs_thread_1() { ssrc->request_stop(); }
extern "C" void cvs_final()
{
    verif_assert(stop_ret == 0, "the stop-token wait returned after request_stop with pred() == false");
    verif_cover(0);
}
